#!/usr/bin/env python3
"""Regenerates /verif/MANIFEST.json from the table below (run after adding a check)."""
import json, os

root = os.path.dirname(os.path.abspath(__file__))
ids = [json.loads(l)["id"] for l in open(root + "/properties.jsonl")]

# id -> (technique, level text, level note, design ref)
CHECKS = {
    "C06": (
        "exhaustive enumeration of the 21 code identifiers with independent oracles: own (n,k)/degree tables, structural laws (quasi-cyclic, dual diagonal, no 4-cycle, girth), own re-expansion of pinned address tables + SHA-256 digest; generated messages through the encoder",
        "The configuration space (21 codes) is enumerated completely; each matrix is checked against structural laws and an independent re-expansion of pinned tables; encoder output checked on generated messages. Exhaustive over configurations; exploration over messages.",
        "Trusts the harness's transcription of Tables 5a/5b and the degree profiles; individual address-table entries are pinned from the tree (regression oracle), see DESIGN.md §7.",
        "DESIGN.md §4 C06",
    ),
    "C07": (
        "exhaustive enumeration of the 9 AR4JA codes and C2 with independent oracles: own M table, protograph degrees, M/4-circulant invariance, own bitset rank, own girth, own Blue-Book re-expansion of pinned theta/phi/circulant tables + digests; generated messages through the encoder",
        "Exhaustive over the 10 configurations (largest matrices' rank and extra encoders in the thorough tier); exploration over messages.",
        "Trusts the harness's transcription of the Blue Book block layouts and M table; table entries are pinned from the tree (regression oracle).",
        "DESIGN.md §4 C07",
    ),
    "C12": (
        "property-based testing (proptest) of BER configurations (one to three Eb/N0 points per run) with a checker-supplied DecoderFactory as observation point; structural oracles (own GF(2) solve / re-encoding, exact zeros) and statistical oracles (+-7 sigma on recovered noise, 8PSK LLR inversion by Gauss-Newton)",
        "Generated configurations; every recorded frame checked structurally; noise statistics tested against the expected sigma with +-7 sigma acceptance. Exploration only; the engine's RNG is not seedable (see level note).",
        "The engine draws from rand::rng(): structural verdicts are draw-independent, statistical ones have per-test false-alarm probability < 3e-12. Hard decisions equal the sent bits at the generated noise levels (error < 1e-14 per sample: BPSK sigma <= 0.13, 8PSK sigma <= 0.048).",
        "DESIGN.md §4 C12",
    ),
    "C13": (
        "property-based testing of schedules and configurations: every case in a child process pinned to 1..16 CPUs (worker count), scripted decoder with randomised delays and a digit-encoded iteration count as exact oracle for all statistics; fault injection with a deadlock-witness monitor",
        "Sampled schedules (worker counts, delay patterns) with an exact accounting oracle; fault-injection cases enumerate the failure kinds; hangs are reported only with a positive witness. Exploration / fault sampling, not exhaustive over interleavings.",
        "The harness owns worker count, delays and the decoder script, not the kernel scheduler or mpsc internals; a bare watchdog expiry is reported as exit 2, never as a violation.",
        "DESIGN.md §4 C13",
    ),
    "C14": (
        "property-based testing (proptest) against an own max-shifted log-sum-exp posterior with a derived tolerance; exhaustive over the 8 bit triples for the constellation; round trips and value-level comparison of whole noisy sequences on generated bit sequences handed over in six array layouts (strided / reversed views)",
        "Generated samples/sigmas compared with an independent exact LLR; constellation enumerated exhaustively. Exploration only.",
        "Trusts the harness's transcription of the DVB-S2 8PSK mapping (checked to be Gray and equally spaced); tolerance 64 eps (|r|/sigma^2 + 1).",
        "DESIGN.md §4 C14",
    ),
    "C15": (
        "exhaustive enumeration of interleaver shapes up to 12x12 (40x40 thorough) x direction + property-based testing of larger shapes and of puncturing patterns/lengths incl. indivisible lengths; index-formula oracle on distinct labels; six input array layouts (strided / reversed views) and objects reused for a second block length",
        "Shapes enumerated exhaustively up to the stated bound, random beyond; puncturer on generated patterns. Exploration beyond the enumerated bound.",
        "The interleaver has no error channel; the error clause is applied to the puncturer (Result API).",
        "DESIGN.md §4 C15",
    ),
    "C19": (
        "differential property testing through the exported C symbols (extern \"C\" declarations from the header), each generated handle/history in a child process; reference = fresh Rust decoder/encoder on the same alist; iteration limits from 0 to 2^32-1; generated failing constructors",
        "Generated (alist, name, pattern, call history) compared call by call with the Rust API; aborts are caught by process isolation. Exploration only.",
        "Buffers have the documented lengths; reference decoder is built from the matrix parsed from the same alist text (order-sensitive arithmetics see the text's entry order).",
        "DESIGN.md §4 C19",
    ),
    "C20": (
        "exhaustive enumeration of dvbs2/ccsds/ccsds-c2 argument sets + property-based testing of peg, mackay-neal, systematic, encode and ber invocations of the binary built from the working tree; differential oracle = library result in-process; validity predicate for ber result lines (binary and decimal Eb/N0 grids, sweeps of up to 21 points)",
        "Code-generation subcommands enumerated completely (stdout byte-equal to the library's alist); other subcommands on generated arguments and files. Exploration beyond the enumerated part.",
        "The binary is built by ./check from the working tree with the repository's release profile; the library functions used as reference are themselves judged by C06-C09/C16.",
        "DESIGN.md §4 C20",
    ),
    "C02": (
        "property-based testing (proptest): matrices built by class (staircase, near-staircase, invertible P*L*U tail, singular by construction, square, single row); oracle = own GF(2) rank of the tail + own syndrome, systematic prefix and linearity over all 2^k messages (k <= 8), messages handed over in six array layouts; libFuzzer byte-tape campaign in the thorough tier",
        "Generated-input search against an independent GF(2) bitset elimination and syndrome. Exploration only.",
        "Trusts the harness's bitset GF(2) algebra (rank, product) used both to construct invertible tails and to decide the expected verdict.",
        "DESIGN.md §4 C02",
    ),
    "C03": (
        "differential property testing (proptest): checker-supplied arithmetics (exact wrapping-integer min-sum, free hash-term algebra, both emitting a node's messages in a generated order; tracing wrappers) plugged into the generic decoders vs an own edge-map interpreter of the two textbook schedules; brute-force posteriors on generated forests for the exactness clause",
        "Reference-model comparison on generated (H, LLR, limit) incl. degree-0/1 checks; order-independent arithmetics make equality exact; exactness clause compared with enumeration of all codewords within a derived tolerance. Exploration only.",
        "Trusts the harness interpreter as the definition of the textbook schedules (with the zero-iteration shortcut C01 requires) and the brute-force posterior computation; float tolerance 16*eps*E*(1+e^M/2)*(1+|L|).",
        "DESIGN.md §4 C03",
    ),
    "C04": (
        "property-based testing + exhaustive enumeration (8-bit types: all degree-2 vectors, degree 3 partially in quick and completely in thorough; objects built by new() or Default::default()) against an own numerically stable box-plus reference with derived tolerances",
        "Every emitted check message is compared with the exact box-plus (or the documented approximation bounds / the real-valued counterpart within accumulated table rounding). Exhaustive for 8-bit degree 2 (and 3 in thorough), random beyond. Exploration only.",
        "Trusts the own box-plus reference (cross-checked at start-up against the tanh form) and the first-order error models behind the tolerances; working range |x| <= 30 (f64) / 12 (f32).",
        "DESIGN.md §4 C04",
    ),
    "C05": (
        "property-based testing (proptest) against exact i64 arithmetic (8-bit types) and f64 sums (float types); any-bit-pattern f64 generator for the quantiser; exhaustive i16 sweep for var_llr_to_llr; overflow checks on; libFuzzer byte-tape campaign in the thorough tier",
        "Exact-model comparison of the variable rule, quantiser and layered primitive for all 24 types on generated inputs (degrees to 200, reachable-envelope states by construction). Exploration only.",
        "Library and harness are built with overflow-checks and debug-assertions so wrap-around panics; quantiser ties may round either way.",
        "DESIGN.md §4 C05",
    ),
    "C09": (
        "property-based testing (proptest): matrices by class (full rank / rank deficient by construction, far-right pivots, zero and duplicate columns, square); oracle = own GF(2) rank, column-multiset equality, invertible tail, Encoder::from_h accepts; libFuzzer byte-tape campaign in the thorough tier",
        "Generated-input search against independent bitset elimination. Exploration only.",
        "Trusts the harness's GF(2) rank; 'code unchanged up to permutation' is checked as equality of column multisets.",
        "DESIGN.md §4 C09",
    ),
    "C11": (
        "property-based testing (proptest): structured graph generator (forests, cycles with pendant trees, two cycles, theta graphs, dense, complete bipartite) x every root x bounds 0..22 and MAX; oracle = plain BFS + edge-deletion shortest cycle through a node; libFuzzer byte-tape campaign in the thorough tier",
        "Generated-input search against an obviously-correct (slow) definition of distances, local girth and girth. Exploration only.",
        "Trusts the own queue BFS and the edge-deletion definition of the shortest cycle through a node.",
        "DESIGN.md §4 C11",
    ),
    "C16": (
        "property-based testing (proptest): configuration/seed generator; validity predicates (weights, own girth, uniformity), exists-a-greedy-order search for PEG, determinism across threads, metamorphic seed sensitivity, seed search under rayon pools of 1/2/4/16 threads vs a sequential oracle",
        "Generated configurations and seeds checked against validity predicates and a sequential re-run oracle. Rayon schedules are sampled (pool sizes), not enumerated. Exploration only.",
        "Trusts own girth/BFS; seed sensitivity demands only that 16 (MacKay-Neal) / 12 (PEG) seeds do not all coincide in roomy configurations.",
        "DESIGN.md §4 C16",
    ),
    "C01": (
        "property-based testing (proptest): structured (H, LLR, limit) generator x all 36 factory-built decoders; validity-predicate oracle (own syndrome, iteration-count clauses)",
        "Generated-input search with an independent validity predicate over the returned Result; panics are caught and reported with the input. Exploration only.",
        "Trusts the harness's own syndrome computation and null-space (bitset elimination) used to construct noisy codewords; LLR magnitudes are bounded by 1e30 as the property states.",
        "DESIGN.md §4 C01",
    ),
    "C10": (
        "stateful/differential property testing (proptest-generated call histories; long-lived decoder vs freshly built decoder after every call)",
        "Every call of a generated history on one decoder object is compared for exact equality with the same call on a fresh decoder, for all 36 names. Exploration only.",
        "Trusts DecoderImplementation::build_decoder(H.clone()) on the same tree as the definition of 'fresh'.",
        "DESIGN.md §4 C10",
    ),
    "C18": (
        "exhaustive enumeration of the 36 names + differential property testing (factory-built vs directly constructed generic decoder) on a separating input family; generated non-member strings for rejection",
        "Names: exhaustive. Behaviour: differential on generated inputs, with the set of implementation pairs actually separated by the inputs measured and reported (630/630 in the quick tier). Exploration only.",
        "Trusts the harness's own list of the 36 documented names and the derivation 'HL prefix = layered, remainder = arithmetic type'.",
        "DESIGN.md §4 C18",
    ),
    "C08": (
        "property-based testing (proptest): round-trip + own strict alist reader as oracle (small dense-to-empty matrices and large sparse ones with 3-4 digit indices); mutation-based text generation for parser totality; libFuzzer campaign in the thorough tier",
        "Generated-input search: every generated matrix is written in both alist forms, validated by an independent strict reader and parsed back; every generated/mutated text must be answered with Ok or Err (panics are caught and reported). Exploration only: holds on everything generated, no proof of absence.",
        "Trusts the harness's own alist reader/writer (cross-checked against each other and against the repository's test vectors); declared dimensions above 2000 are skipped as not 'moderate'.",
        "DESIGN.md §4 C08",
    ),
    "C17": (
        "model-based property testing (proptest op sequences stepped against a BTreeSet model, invariant after every step); libFuzzer op-tape campaign in the thorough tier",
        "Generated operation histories are applied to the real SparseMatrix and to a set model in lock-step; all queries are compared after every step. Exploration only.",
        "Trusts std BTreeSet as the model; indices are generated in range because out-of-range indexing panics by contract.",
        "DESIGN.md §4 C17",
    ),
}

checks = []
for pid in ids:
    if pid not in CHECKS:
        continue
    tech, text, note, ref = CHECKS[pid]
    checks.append({
        "property_id": pid,
        "quick_cmd": f"./check {pid} quick",
        "thorough_cmd": f"./check {pid} thorough",
        "evidence_file": f"/verif/evidence/{pid}.json",
        "replay_cmd_template": "./check replay {path}",
        "engine": "vcheck",
        "level_claimed": {"category": "exploration", "text": text, "design_ref": ref},
        "level_note": note,
        "technique": tech,
    })

manifest = {
    "version": 1,
    "setup_cmd": "./check build fuzz" if os.path.exists(root + "/fuzz.sh") else "./check build",
    "hooks": {
        "guard": "ldpc_toolbox_verif",
        "enable": "none needed: every observation point is public API (DecoderArithmetic, DecoderFactory, LdpcDecoder, BerTest::new, Modulator/Demodulator, the #[no_mangle] C symbols, the binary); no hook commits exist",
        "baseline_off_cmd": "cd /repo && cargo test --workspace --no-fail-fast --offline",
        "source_commits": [],
        "add_only": True,
    },
    "engines": [
        {
            "name": "vcheck",
            "path": "/verif/harness",
            "serves_properties": [c["property_id"] for c in checks],
            "kind_free_text": "Rust binary driving proptest TestRunners (16 threads, seeds derived from VERIF_SEED), exhaustive enumerations of small finite spaces, child-process isolation for aborting/hanging cases; cargo-fuzz/libFuzzer targets under /verif/harness/fuzz share the oracle code",
        }
    ],
    "checks": checks,
    "not_applicable": [
        {"property_id": pid, "reason": "check not built yet (the technique applies, see DESIGN.md §4)"}
        for pid in ids if pid not in CHECKS
    ],
    "notes": "All checks: exit 0 held / 1 violation with 'VIOLATION property=<id> replay=<path>' / 2 no verdict. Genuine defects found are repaired by 'fix:' commits in /repo and listed in /verif/known_findings.txt.",
}
json.dump(manifest, open(root + "/MANIFEST.json", "w"), indent=1)
print("wrote MANIFEST.json with", len(checks), "checks")
