#!/usr/bin/env python3
"""Validate MANIFEST.json and evidence/*.json against the schemas in /root/.vp."""
import json, sys, glob, os
import jsonschema
root = os.path.dirname(os.path.abspath(__file__))
ok = True
def val(path, schema):
    global ok
    try:
        jsonschema.validate(json.load(open(path)), json.load(open(schema)))
        print("ok  ", path)
    except Exception as e:
        ok = False
        print("FAIL", path, str(e)[:300])
if os.path.exists(root + "/MANIFEST.json"):
    val(root + "/MANIFEST.json", "/root/.vp/MANIFEST.schema.json")
for f in sorted(glob.glob(root + "/evidence/*.json")):
    val(f, "/root/.vp/EVIDENCE.schema.json")
    # evidence files are read by tools with a size limit: keep them well below 5 MB
    if os.path.getsize(f) > 1_000_000:
        ok = False
        print("FAIL", f, "evidence file larger than 1 MB:", os.path.getsize(f))
sys.exit(0 if ok else 1)
