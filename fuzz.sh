#!/usr/bin/env bash
# ./fuzz.sh build            build the libFuzzer targets (nightly, ASan, debug assertions), offline
# ./fuzz.sh run <Cxx> [runs] coverage-guided campaign for C02 / C05 / C08 / C09 / C11 / C17 (thorough tier)
#
# run: exit 0 = no crash, 1 = crash (prints "VIOLATION property=<id> replay=<path>"),
#      2 = fuzzing unavailable / no verdict. Appends a "fuzz" object to evidence/<id>.json.
set -u
DIR="$(cd "$(dirname "${BASH_SOURCE[0]}")" && pwd)"
export CARGO_NET_OFFLINE=true
export CARGO_TARGET_DIR="${VERIF_TARGET_DIR:-$DIR/target}"
FBIN="$CARGO_TARGET_DIR/x86_64-unknown-linux-gnu/release"
mkdir -p "$CARGO_TARGET_DIR/tmp" "$DIR/replays" "$DIR/evidence"

build() {
    (
        flock 9
        cd "$DIR/harness/fuzz" && cargo +nightly fuzz build >"$CARGO_TARGET_DIR/fuzz-build.log" 2>&1
    ) 9>"$CARGO_TARGET_DIR/.fuzz-build.lock"
    local rc=$?
    if [ $rc -ne 0 ]; then
        echo "fuzz.sh: cargo +nightly fuzz build failed (see $CARGO_TARGET_DIR/fuzz-build.log)" >&2
        tail -n 20 "$CARGO_TARGET_DIR/fuzz-build.log" >&2
        return 2
    fi
    return 0
}

note_evidence() { # id json-object
    local ev="$DIR/evidence/$1.json"
    if [ -f "$ev" ]; then
        local tmp
        tmp="$(mktemp "$CARGO_TARGET_DIR/tmp/ev.XXXXXX")"
        if jq --argjson f "$2" '.coverage.fuzz = $f' "$ev" >"$tmp" 2>/dev/null; then
            cat "$tmp" >"$ev"
        fi
        rm -f "$tmp"
    fi
}

case "${1:-}" in
build)
    build
    exit $?
    ;;
run)
    id="${2:?property id}"
    t="$(echo "$id" | tr 'A-Z' 'a-z')"
    case "$t" in c02 | c05 | c08 | c09 | c11 | c17) ;; *)
        echo "fuzz.sh: no fuzz target for $id" >&2
        exit 2
        ;;
    esac
    case "$t" in
    c08) defruns=5000000; maxlen=2048 ;;
    c05) defruns=2000000; maxlen=4096 ;;
    c02) defruns=2000000; maxlen=64 ;;
    c09) defruns=5000000; maxlen=64 ;;
    c11) defruns=300000; maxlen=48 ;;
    *) defruns=300000; maxlen=600 ;;
    esac
    runs="${3:-${VERIF_FUZZ_RUNS:-$defruns}}"
    # rebuild from the current working tree of /repo (cargo fingerprints make this a no-op when nothing changed)
    if ! build; then
        note_evidence "$id" '{"available": false, "note": "cargo +nightly fuzz build failed; thorough tier ran the proptest drivers only"}'
        exit 2
    fi
    jobs=8
    per=$((runs / jobs))
    seed0=$(((${VERIF_SEED:-0} % 1000000) * 16 + 1))
    work="$(mktemp -d "$CARGO_TARGET_DIR/tmp/fuzz-$t.XXXXXX")"
    start=$(date +%s)
    pids=()
    for j in $(seq 0 $((jobs - 1))); do
        mkdir -p "$work/corpus$j" "$work/art$j"
        cp "$DIR/corpus/$t/"* "$work/corpus$j/" 2>/dev/null
        (
            "$FBIN/$t" "$work/corpus$j" -runs="$per" -seed=$((seed0 + j)) -len_control=0 -max_len=$maxlen \
                -artifact_prefix="$work/art$j/" -print_final_stats=1 >"$work/log$j" 2>&1
        ) &
        pids+=($!)
    done
    for p in "${pids[@]}"; do wait "$p"; done
    end=$(date +%s)
    crashes=()
    for j in $(seq 0 $((jobs - 1))); do
        for f in "$work/art$j/"*; do
            [ -f "$f" ] && crashes+=("$f")
        done
    done
    execs=$(grep -h 'stat::number_of_executed_units' "$work"/log* | awk '{s+=$2} END {print s+0}')
    cov=$(grep -h ' cov: ' "$work"/log* | sed -E 's/.* cov: ([0-9]+).*/\1/' | sort -n | tail -1)
    corpus=$(cat "$work"/corpus*/ 2>/dev/null | wc -c)
    ncorp=$(ls "$work"/corpus0 | wc -l)
    rc=0
    first=""
    if [ ${#crashes[@]} -gt 0 ]; then
        rc=1
        for f in "${crashes[@]}"; do
            h=$(sha256sum "$f" | cut -c1-16)
            dst="$DIR/replays/$id-fuzz-$h.bin"
            cp "$f" "$dst"
            [ -z "$first" ] && first="$dst"
        done
        grep -h -m1 'ORACLE-FAILURE\|panicked at\|ERROR: ' "$work"/log* | head -5 >&2
        echo "VIOLATION property=$id replay=$first"
    fi
    note_evidence "$id" "{\"available\": true, \"engine\": \"libFuzzer (cargo-fuzz, ASan, debug assertions)\", \"jobs\": $jobs, \"runs_requested\": $runs, \"executions\": ${execs:-0}, \"edge_coverage_max\": ${cov:-0}, \"seed_corpus_files\": $(ls "$DIR/corpus/$t" | wc -l), \"final_corpus_files_job0\": $ncorp, \"crashes\": ${#crashes[@]}, \"wall_s\": $((end - start))}"
    echo "fuzz.sh: $id: ${execs:-0} executions in $((end - start)) s, max edge coverage ${cov:-0}, ${#crashes[@]} crash(es)" >&2
    rm -rf "$work"
    : "$corpus"
    exit $rc
    ;;
*)
    echo "usage: ./fuzz.sh build | run <Cxx> [runs]" >&2
    exit 2
    ;;
esac
