#![no_main]
// libFuzzer target: the oracle is the same function the proptest driver uses
// (vcheck::props::c02::fuzz_bytes); a failed oracle or a panic in the library is a crash.
libfuzzer_sys::fuzz_target!(|data: &[u8]| {
    if let Err(f) = vcheck::props::c02::fuzz_bytes(data) {
        eprintln!("ORACLE-FAILURE [{}]: {}", f.key, f.msg);
        std::process::abort();
    }
});
