//! Generic driver: runs sub-checks (proptest-generated or enumerated) on 16
//! worker threads, counts cases / classes / distinct non-trivial cases, shrinks
//! the first failure, writes replay and evidence files.

use proptest::strategy::{BoxedStrategy, Strategy};
use proptest::test_runner::{Config, RngAlgorithm, RngSeed, TestCaseError, TestError, TestRunner};
use serde::{Serialize, de::DeserializeOwned};
use serde_json::{Value, json};
use std::cell::RefCell;
use std::collections::{BTreeMap, HashSet};
use std::hash::{Hash, Hasher};
use std::panic::{AssertUnwindSafe, catch_unwind};
use std::path::PathBuf;
use std::sync::atomic::{AtomicBool, Ordering};
use std::sync::{Mutex, OnceLock};
use std::time::Instant;

pub const THREADS: usize = 16;

/// VERIF_SEED of this run, for enumerated sub-checks that derive pseudo-random data
pub static GLOBAL_SEED: std::sync::atomic::AtomicU64 = std::sync::atomic::AtomicU64::new(0);

#[derive(Debug, Clone, Copy, PartialEq, Eq)]
pub enum Tier {
    Quick,
    Thorough,
}

impl Tier {
    pub fn name(self) -> &'static str {
        match self {
            Tier::Quick => "quick",
            Tier::Thorough => "thorough",
        }
    }
    pub fn pick<T>(self, quick: T, thorough: T) -> T {
        match self {
            Tier::Quick => quick,
            Tier::Thorough => thorough,
        }
    }
}

#[derive(Debug, Clone)]
pub struct Ctx {
    pub tier: Tier,
    pub seed: u64,
    pub root: PathBuf,
    /// (property, signature) pairs listed as `finding:` in known_findings.txt
    pub known: Vec<(String, String, String)>,
}

/// A failed oracle: `key` is a stable signature of the failing input class
/// (used only to match `finding:` entries), `msg` the human readable report.
#[derive(Debug, Clone)]
pub struct Fail {
    pub key: String,
    pub msg: String,
}

impl Fail {
    pub fn new(key: &str, msg: impl Into<String>) -> Fail {
        Fail {
            key: key.to_string(),
            msg: msg.into(),
        }
    }
}

pub type Check = Result<(), Fail>;

/// key of a failure that is not a verdict (watchdog without a deadlock witness, missing tool …):
/// the run exits 2 instead of reporting a violation
pub const INCONCLUSIVE: &str = "INCONCLUSIVE";

#[macro_export]
macro_rules! ensure {
    ($cond:expr, $key:expr, $($arg:tt)+) => {
        if !($cond) {
            return Err($crate::engine::Fail::new($key, format!($($arg)+)));
        }
    };
}

/// Per-case observations made by a check (classes, non-triviality, metrics).
#[derive(Debug, Default)]
pub struct Probe {
    pub classes: Vec<&'static str>,
    pub nontrivial: bool,
    pub metrics: Vec<(&'static str, f64)>,
    /// extra evaluations performed inside this case (e.g. 36 decoders per case)
    pub inner: u64,
}

impl Probe {
    pub fn class(&mut self, c: &'static str) {
        if !self.classes.contains(&c) {
            self.classes.push(c);
        }
    }
    pub fn class_if(&mut self, cond: bool, c: &'static str) {
        if cond {
            self.class(c)
        }
    }
    pub fn nontrivial(&mut self) {
        self.nontrivial = true;
    }
    /// record a metric whose maximum over the run is reported
    pub fn metric(&mut self, name: &'static str, v: f64) {
        self.metrics.push((name, v));
    }
}

#[derive(Debug, Default, Clone)]
pub struct Stats {
    pub evaluations: u64,
    pub inner: u64,
    pub nontrivial: HashSet<u64>,
    pub classes: BTreeMap<String, u64>,
    pub metrics_max: BTreeMap<String, f64>,
    pub first_samples: Vec<Value>,
    pub nontrivial_samples: Vec<Value>,
    pub known_hits: BTreeMap<String, u64>,
    pub inconclusive: Vec<String>,
}

impl Stats {
    fn merge(&mut self, o: Stats) {
        self.evaluations += o.evaluations;
        self.inner += o.inner;
        self.nontrivial.extend(o.nontrivial);
        for (k, v) in o.classes {
            *self.classes.entry(k).or_default() += v;
        }
        for (k, v) in o.metrics_max {
            let e = self.metrics_max.entry(k).or_insert(f64::NEG_INFINITY);
            if v > *e {
                *e = v;
            }
        }
        for s in o.first_samples {
            if self.first_samples.len() < 2 {
                self.first_samples.push(s);
            }
        }
        for s in o.nontrivial_samples {
            if self.nontrivial_samples.len() < 3 {
                self.nontrivial_samples.push(s);
            }
        }
        for (k, v) in o.known_hits {
            *self.known_hits.entry(k).or_default() += v;
        }
        for m in o.inconclusive {
            if self.inconclusive.len() < 20 {
                self.inconclusive.push(m);
            }
        }
    }

    fn record<C: Serialize>(&mut self, case: &C, digest: u64, p: Probe) {
        self.evaluations += 1;
        self.inner += p.inner;
        for c in &p.classes {
            *self.classes.entry((*c).to_string()).or_default() += 1;
        }
        for (k, v) in &p.metrics {
            let e = self
                .metrics_max
                .entry((*k).to_string())
                .or_insert(f64::NEG_INFINITY);
            if *v > *e {
                *e = *v;
            }
        }
        if self.first_samples.len() < 1 {
            self.first_samples.push(sample_value(case));
        }
        if p.nontrivial {
            let fresh = self.nontrivial.insert(digest);
            if fresh && self.nontrivial_samples.len() < 1 {
                self.nontrivial_samples.push(sample_value(case));
            }
        }
    }
}

/// a generated case as it appears among the samples of the evidence file; a case whose JSON text is
/// longer than 6000 characters (a matrix with tens of thousands of ones) is represented by its
/// length and its first 1500 characters, so that evidence files stay small
fn sample_value<C: Serialize>(case: &C) -> Value {
    let v = serde_json::to_value(case).unwrap_or(Value::Null);
    let text = v.to_string();
    if text.len() <= 6000 {
        v
    } else {
        let head: String = text.chars().take(1500).collect();
        json!({"abridged": true, "json_length": text.len(), "begins": head})
    }
}

#[derive(Debug, Clone)]
pub struct Failure {
    pub sub: String,
    pub key: String,
    pub msg: String,
    pub case: Value,
}

#[derive(Debug)]
pub struct SubResult {
    pub name: String,
    pub rule: String,
    pub exhaustive: bool,
    pub stats: Stats,
    pub failure: Option<Failure>,
    pub health: Vec<String>,
    pub notes: Vec<String>,
}

pub trait AnySub: Sync {
    fn name(&self) -> &str;
    fn run(&self, ctx: &Ctx, prop: &str) -> SubResult;
    fn replay(&self, case: Value) -> Result<Check, String>;
}

// ---------------------------------------------------------------------------
// panic capture

thread_local! {
    static QUIET: RefCell<bool> = const { RefCell::new(false) };
    static LAST_PANIC: RefCell<String> = const { RefCell::new(String::new()) };
}

pub fn install_panic_hook() {
    let default = std::panic::take_hook();
    std::panic::set_hook(Box::new(move |info| {
        let quiet = QUIET.with(|q| *q.borrow());
        if quiet {
            let msg = if let Some(s) = info.payload().downcast_ref::<&str>() {
                s.to_string()
            } else if let Some(s) = info.payload().downcast_ref::<String>() {
                s.clone()
            } else {
                "<non-string panic payload>".to_string()
            };
            let loc = info
                .location()
                .map(|l| format!("{}:{}", l.file(), l.line()))
                .unwrap_or_default();
            LAST_PANIC.with(|p| *p.borrow_mut() = format!("{msg} at {loc}"));
        } else {
            default(info);
        }
    }));
}

/// Runs `f`, turning a panic into `Err(message)`.
pub fn guarded<T>(f: impl FnOnce() -> T) -> Result<T, String> {
    let prev = QUIET.with(|q| std::mem::replace(&mut *q.borrow_mut(), true));
    let r = catch_unwind(AssertUnwindSafe(f));
    QUIET.with(|q| *q.borrow_mut() = prev);
    r.map_err(|_| LAST_PANIC.with(|p| p.borrow().clone()))
}

/// Runs a whole check under the panic guard; a panic is a violation with key "panic".
pub fn guarded_check(f: impl FnOnce() -> Check) -> Check {
    match guarded(f) {
        Ok(r) => r,
        Err(m) => Err(Fail::new("panic", format!("panicked: {m}"))),
    }
}

// ---------------------------------------------------------------------------
// hashing / seeds

pub fn splitmix(mut x: u64) -> u64 {
    x = x.wrapping_add(0x9E37_79B9_7F4A_7C15);
    let mut z = x;
    z = (z ^ (z >> 30)).wrapping_mul(0xBF58_476D_1CE4_E5B9);
    z = (z ^ (z >> 27)).wrapping_mul(0x94D0_49BB_1331_11EB);
    z ^ (z >> 31)
}

pub fn hash_str(s: &str) -> u64 {
    let mut h = std::collections::hash_map::DefaultHasher::new();
    s.hash(&mut h);
    h.finish()
}

pub fn digest_of<C: std::fmt::Debug>(c: &C) -> u64 {
    hash_str(&format!("{c:?}"))
}

fn seed_bytes(seed: u64, prop: &str, sub: &str, thread: usize) -> [u8; 32] {
    let mut s = splitmix(seed ^ hash_str(prop)) ^ splitmix(hash_str(sub)) ^ (thread as u64) << 48;
    let mut out = [0u8; 32];
    for chunk in out.chunks_mut(8) {
        s = splitmix(s);
        chunk.copy_from_slice(&s.to_le_bytes());
    }
    out
}

// ---------------------------------------------------------------------------
// Generated sub-check

pub struct Sub<C> {
    pub name: &'static str,
    pub rule: &'static str,
    pub cases: fn(Tier) -> u64,
    pub strategy: fn(Tier) -> BoxedStrategy<C>,
    pub check: fn(&C, &mut Probe) -> Check,
    /// (class, minimum share of evaluations): generator health targets
    pub health: &'static [(&'static str, f64)],
}

fn known_match(ctx: &Ctx, prop: &str, sub: &str, key: &str) -> Option<String> {
    let sig = format!("{sub}:{key}");
    ctx.known
        .iter()
        .find(|(p, s, _)| p == prop && *s == sig)
        .map(|(_, s, _)| s.clone())
}

fn health_report(stats: &Stats, health: &[(&'static str, f64)]) -> Vec<String> {
    let mut out = Vec::new();
    for (class, min) in health {
        let n = stats.classes.get(*class).copied().unwrap_or(0);
        let share = if stats.evaluations > 0 {
            n as f64 / stats.evaluations as f64
        } else {
            0.0
        };
        if share < *min {
            out.push(format!(
                "generator health: class '{class}' share {share:.4} below target {min}"
            ));
        }
    }
    out
}

impl<C> AnySub for Sub<C>
where
    C: std::fmt::Debug + Clone + Serialize + DeserializeOwned + Send + 'static,
{
    fn name(&self) -> &str {
        self.name
    }

    fn run(&self, ctx: &Ctx, prop: &str) -> SubResult {
        // VERIF_CASE_SCALE (the environment sweep of the driver): a fraction of the tier's budget, at least 64 cases
        let total = {
            let t = (self.cases)(ctx.tier);
            match std::env::var("VERIF_CASE_SCALE").ok().and_then(|v| v.parse::<f64>().ok()) {
                Some(f) if f > 0.0 && f < 1.0 => ((t as f64 * f) as u64).max(64).min(t),
                _ => t,
            }
        };
        let stop = AtomicBool::new(false);
        let merged = Mutex::new(Stats::default());
        let failure: Mutex<Option<Failure>> = Mutex::new(None);
        std::thread::scope(|sc| {
            for t in 0..THREADS {
                let share = total / THREADS as u64 + u64::from((t as u64) < total % THREADS as u64);
                if share == 0 {
                    continue;
                }
                let stop = &stop;
                let merged = &merged;
                let failure = &failure;
                sc.spawn(move || {
                    BUSY[t % MAX_WORKERS].store(true, Ordering::Relaxed);
                    let mut config = Config::default();
                    config.cases = share.min(u32::MAX as u64) as u32;
                    config.failure_persistence = None;
                    config.max_shrink_iters = 3_000;
                    config.max_shrink_time = 90_000; // ms: shrinking is a convenience, not part of the verdict
                    config.verbose = 0;
                    config.rng_algorithm = RngAlgorithm::ChaCha;
                    config.rng_seed = RngSeed::Fixed(0);
                    config.max_global_rejects = 1 << 20;
                    config.max_local_rejects = 1 << 20;
                    let rng = proptest::test_runner::TestRng::from_seed(
                        RngAlgorithm::ChaCha,
                        &seed_bytes(ctx.seed, prop, self.name, t),
                    );
                    let mut runner = TestRunner::new_with_rng(config, rng);
                    let strategy = (self.strategy)(ctx.tier);
                    let stats = RefCell::new(Stats::default());
                    let failed = RefCell::new(false);
                    let last_fail: RefCell<Option<Fail>> = RefCell::new(None);
                    let helper: RefCell<Option<Helper<C>>> = RefCell::new(None);
                    let res = runner.run(&strategy, |case| {
                        beat(t);
                        let shrinking = *failed.borrow();
                        if shrinking && HUNG.load(Ordering::SeqCst) {
                            // keep the case that did not return as it is
                            return Ok(());
                        }
                        if !shrinking && stop.load(Ordering::Relaxed) {
                            return Ok(());
                        }
                        let mut probe = Probe::default();
                        let r = if deadline_applies(self.name) {
                            let mut h = helper.borrow_mut();
                            if h.is_none() {
                                *h = Helper::spawn(self.check);
                            }
                            match h.as_ref() {
                                Some(hh) => match hh.run(case.clone()) {
                                    Some((r, p)) => {
                                        probe = p;
                                        r
                                    }
                                    None => {
                                        // the helper is stuck inside the code under test: abandon it
                                        *h = None;
                                        Err(does_not_return())
                                    }
                                },
                                None => guarded_check(|| (self.check)(&case, &mut probe)),
                            }
                        } else {
                            guarded_check(|| (self.check)(&case, &mut probe))
                        };
                        match r {
                            Ok(()) => {
                                if !shrinking {
                                    let d = digest_of(&case);
                                    stats.borrow_mut().record(&case, d, probe);
                                }
                                Ok(())
                            }
                            Err(f) => {
                                if f.key == INCONCLUSIVE {
                                    if !shrinking {
                                        stats.borrow_mut().inconclusive.push(f.msg.clone());
                                    }
                                    return Ok(());
                                }
                                if let Some(sig) = known_match(ctx, prop, self.name, &f.key) {
                                    if !shrinking {
                                        *stats.borrow_mut().known_hits.entry(sig).or_default() += 1;
                                    }
                                    return Ok(());
                                }
                                if !shrinking {
                                    stats.borrow_mut().evaluations += 1;
                                    *failed.borrow_mut() = true;
                                    stop.store(true, Ordering::Relaxed);
                                }
                                let msg = f.msg.clone();
                                *last_fail.borrow_mut() = Some(f);
                                Err(TestCaseError::fail(msg))
                            }
                        }
                    });
                    match res {
                        Ok(()) => {}
                        Err(TestError::Fail(_, case)) => {
                            // re-run the shrunk case to get its own message/key
                            let mut probe = Probe::default();
                            let rr = if HUNG.load(Ordering::SeqCst) {
                                Err(last_fail.borrow().clone().unwrap_or_else(does_not_return))
                            } else if deadline_applies(self.name) {
                                deadline_check(self.check, &case, &mut probe)
                            } else {
                                guarded_check(|| (self.check)(&case, &mut probe))
                            };
                            let f = match rr {
                                Err(f) => f,
                                Ok(()) => last_fail
                                    .borrow()
                                    .clone()
                                    .unwrap_or(Fail::new("unstable", "shrunk case passes on re-run")),
                            };
                            let mut g = failure.lock().unwrap();
                            if g.is_none() {
                                *g = Some(Failure {
                                    sub: self.name.to_string(),
                                    key: f.key,
                                    msg: f.msg,
                                    case: serde_json::to_value(&case).unwrap_or(Value::Null),
                                });
                            }
                        }
                        Err(TestError::Abort(reason)) => {
                            eprintln!("vcheck: {prop}/{}: generator aborted: {reason}", self.name);
                        }
                    }
                    merged.lock().unwrap().merge(stats.into_inner());
                    BUSY[t % MAX_WORKERS].store(false, Ordering::Relaxed);
                });
            }
        });
        let stats = merged.into_inner().unwrap();
        let health = health_report(&stats, self.health);
        SubResult {
            name: self.name.to_string(),
            rule: self.rule.to_string(),
            exhaustive: false,
            stats,
            failure: failure.into_inner().unwrap(),
            health,
            notes: vec![],
        }
    }

    fn replay(&self, case: Value) -> Result<Check, String> {
        let case: C = serde_json::from_value(case).map_err(|e| format!("cannot decode case: {e}"))?;
        let mut probe = Probe::default();
        if deadline_applies(self.name) {
            return Ok(deadline_check(self.check, &case, &mut probe));
        }
        Ok(guarded_check(|| (self.check)(&case, &mut probe)))
    }
}

// ---------------------------------------------------------------------------
// Calls that do not return. For the sub-checks listed here a case takes micro- to milliseconds and
// the functions under test are pure computations on small inputs; such a case is executed on a
// helper thread, and if it has not come back after DEADLINE_S seconds (four or more orders of
// magnitude beyond its normal cost) the check reports that the call does not return for this input
// (the helper thread is abandoned). Everything else keeps the stall watchdog (exit status 2).

/// set by the byte-tape entry points of the libFuzzer targets: under libFuzzer every panic aborts the
/// process (its panic hook), so probes whose outcome may legitimately be a caught panic (a caller's
/// mistake made on purpose, outcome ignored) are left out there
pub static FUZZ_MODE: std::sync::atomic::AtomicBool = std::sync::atomic::AtomicBool::new(false);

const DEADLINE_SUBS: &[&str] = &[
    "graphs", "regression", "wide-index", "medium", "conversion", "conversion-large", "conversion-wide", "encoder", "encoder-large", "encoder-wide", "model", "degenerate-shapes", "roundtrip",
    "roundtrip-large", "roundtrip-fixed", "totality", "totality-fixed", "interleaver-shapes", "interleaver-random", "puncturer", "peg", "peg-medium", "single-thread-pool",
];
const DEADLINE_S: u64 = 60;

pub fn deadline_applies(sub: &str) -> bool {
    DEADLINE_SUBS.contains(&sub)
}

/// a long-lived helper thread executing the cases of one worker (spawning a thread per case costs
/// ~150 us, a hand-over to a waiting helper a few microseconds)
pub struct Helper<C> {
    tx: std::sync::mpsc::Sender<C>,
    rx: std::sync::mpsc::Receiver<(Check, Probe)>,
}

impl<C: Send + 'static> Helper<C> {
    pub fn spawn(check: fn(&C, &mut Probe) -> Check) -> Option<Helper<C>> {
        let (tx, rx_case) = std::sync::mpsc::channel::<C>();
        let (tx_res, rx) = std::sync::mpsc::channel();
        std::thread::Builder::new()
            .stack_size(8 << 20)
            .spawn(move || {
                while let Ok(c) = rx_case.recv() {
                    let mut p = Probe::default();
                    let r = guarded_check(|| check(&c, &mut p));
                    if tx_res.send((r, p)).is_err() {
                        break;
                    }
                }
            })
            .ok()?;
        Some(Helper { tx, rx })
    }

    /// None = the helper did not answer within the deadline (it is to be abandoned)
    pub fn run(&self, case: C) -> Option<(Check, Probe)> {
        if self.tx.send(case).is_err() {
            return None;
        }
        self.rx.recv_timeout(std::time::Duration::from_secs(DEADLINE_S)).ok()
    }
}

/// set once a call did not return: abandoned helper threads keep a core busy each, so the run is
/// cut short from then on (no shrinking of that case, no further sub-checks)
pub static HUNG: AtomicBool = AtomicBool::new(false);

pub fn does_not_return() -> Fail {
    HUNG.store(true, Ordering::SeqCst);
    Fail::new("does-not-return", format!("the code under test has not returned after {DEADLINE_S} s for this input (such a case normally takes milliseconds at most)"))
}

pub fn deadline_check<C: Clone + Send + 'static>(check: fn(&C, &mut Probe) -> Check, case: &C, probe: &mut Probe) -> Check {
    let (tx, rx) = std::sync::mpsc::channel();
    let c = case.clone();
    let spawned = std::thread::Builder::new().stack_size(8 << 20).spawn(move || {
        let mut p = Probe::default();
        let r = guarded_check(|| check(&c, &mut p));
        let _ = tx.send((r, p));
    });
    if spawned.is_err() {
        // no helper thread available: run in place
        return guarded_check(|| check(case, probe));
    }
    match rx.recv_timeout(std::time::Duration::from_secs(DEADLINE_S)) {
        Ok((r, p)) => {
            *probe = p;
            r
        }
        Err(_) => Err(does_not_return()),
    }
}

// ---------------------------------------------------------------------------
// Enumerated sub-check (finite list of cases, run completely)

pub struct EnumSub<C> {
    pub name: &'static str,
    pub rule: &'static str,
    pub cases: fn(Tier) -> Vec<C>,
    pub check: fn(&C, &mut Probe) -> Check,
    /// true when `cases` is the complete finite space the property quantifies over
    pub exhaustive: bool,
}

impl<C> AnySub for EnumSub<C>
where
    C: std::fmt::Debug + Clone + Serialize + DeserializeOwned + Send + Sync + 'static,
{
    fn name(&self) -> &str {
        self.name
    }

    fn run(&self, ctx: &Ctx, prop: &str) -> SubResult {
        let cases = (self.cases)(ctx.tier);
        let next = std::sync::atomic::AtomicUsize::new(0);
        let merged = Mutex::new(Stats::default());
        let failure: Mutex<Option<(usize, Failure)>> = Mutex::new(None);
        std::thread::scope(|sc| {
            for w in 0..THREADS.min(cases.len().max(1)) {
                let (next, merged, failure, cases) = (&next, &merged, &failure, &cases);
                sc.spawn(move || {
                    BUSY[w % MAX_WORKERS].store(true, Ordering::Relaxed);
                    let mut stats = Stats::default();
                    loop {
                        let i = next.fetch_add(1, Ordering::Relaxed);
                        if i >= cases.len() {
                            break;
                        }
                        beat(w);
                        let case = &cases[i];
                        let mut probe = Probe::default();
                        let rr = if deadline_applies(self.name) { deadline_check(self.check, case, &mut probe) } else { guarded_check(|| (self.check)(case, &mut probe)) };
                        match rr {
                            Ok(()) => stats.record(case, digest_of(case), probe),
                            Err(f) => {
                                if f.key == INCONCLUSIVE {
                                    stats.inconclusive.push(f.msg.clone());
                                    continue;
                                }
                                if let Some(sig) = known_match(ctx, prop, self.name, &f.key) {
                                    *stats.known_hits.entry(sig).or_default() += 1;
                                    continue;
                                }
                                stats.evaluations += 1;
                                let mut g = failure.lock().unwrap();
                                if g.as_ref().is_none_or(|(j, _)| i < *j) {
                                    *g = Some((
                                        i,
                                        Failure {
                                            sub: self.name.to_string(),
                                            key: f.key,
                                            msg: f.msg,
                                            case: serde_json::to_value(case).unwrap_or(Value::Null),
                                        },
                                    ));
                                }
                            }
                        }
                    }
                    merged.lock().unwrap().merge(stats);
                    BUSY[w % MAX_WORKERS].store(false, Ordering::Relaxed);
                });
            }
        });
        SubResult {
            name: self.name.to_string(),
            rule: self.rule.to_string(),
            exhaustive: self.exhaustive,
            stats: merged.into_inner().unwrap(),
            failure: failure.into_inner().unwrap().map(|x| x.1),
            health: vec![],
            notes: vec![],
        }
    }

    fn replay(&self, case: Value) -> Result<Check, String> {
        let case: C = serde_json::from_value(case).map_err(|e| format!("cannot decode case: {e}"))?;
        let mut probe = Probe::default();
        if deadline_applies(self.name) {
            return Ok(deadline_check(self.check, &case, &mut probe));
        }
        Ok(guarded_check(|| (self.check)(&case, &mut probe)))
    }
}

// ---------------------------------------------------------------------------
// Property-level run, evidence, replay files

pub struct Property {
    pub id: &'static str,
    pub subs: Vec<Box<dyn AnySub>>,
    pub assumptions: Vec<String>,
}

pub struct RunOutcome {
    pub violations: Vec<(Failure, PathBuf)>,
    pub known_lines: Vec<String>,
    pub inconclusive: Vec<String>,
}

fn load_known(root: &PathBuf) -> Vec<(String, String, String)> {
    // finding: property=<id> signature=<sub>:<key> <text>
    let mut out = Vec::new();
    let Ok(text) = std::fs::read_to_string(root.join("known_findings.txt")) else {
        return out;
    };
    for line in text.lines() {
        let line = line.trim();
        let Some(rest) = line.strip_prefix("finding:") else {
            continue;
        };
        let mut prop = None;
        let mut sig = None;
        let mut text = Vec::new();
        for tok in rest.split_whitespace() {
            if let Some(p) = tok.strip_prefix("property=") {
                prop = Some(p.to_string());
            } else if let Some(s) = tok.strip_prefix("signature=") {
                sig = Some(s.to_string());
            } else {
                text.push(tok);
            }
        }
        if let (Some(p), Some(s)) = (prop, sig) {
            out.push((p, s, text.join(" ")));
        }
    }
    out
}

pub fn make_ctx(tier: Tier, seed: u64) -> Ctx {
    GLOBAL_SEED.store(seed, Ordering::Relaxed);
    let root = PathBuf::from(std::env::var("VERIF_DIR").unwrap_or_else(|_| "/verif".to_string()));
    let known = load_known(&root);
    Ctx {
        tier,
        seed,
        root,
        known,
    }
}

static START: OnceLock<Instant> = OnceLock::new();

// ---------------------------------------------------------------------------
// stall watchdog: a case that does not come back is not a verdict, but it must not take the
// 40-minute outer timeout to say so. Every worker bumps a heartbeat per case; a watchdog thread
// ends the process with status 2 (and says which sub-check, worker and case ordinal) when a busy
// worker has shown no heartbeat for STALL_LIMIT seconds.

pub const MAX_WORKERS: usize = 64;
pub static HEARTBEAT: [std::sync::atomic::AtomicU64; MAX_WORKERS] = [const { std::sync::atomic::AtomicU64::new(0) }; MAX_WORKERS];
pub static BUSY: [AtomicBool; MAX_WORKERS] = [const { AtomicBool::new(false) }; MAX_WORKERS];
static CURRENT_SUB: Mutex<String> = Mutex::new(String::new());
static WATCHDOG: OnceLock<()> = OnceLock::new();

pub fn beat(worker: usize) {
    HEARTBEAT[worker % MAX_WORKERS].fetch_add(1, Ordering::Relaxed);
}

fn start_watchdog(prop: &'static str, seed: u64, tier: Tier) {
    WATCHDOG.get_or_init(|| {
        // no single case of any check takes more than about a minute (quick) / five minutes (thorough)
        let limit: u64 = std::env::var("VERIF_STALL_LIMIT").ok().and_then(|v| v.parse().ok()).unwrap_or(tier.pick(900, 2400));
        std::thread::spawn(move || {
            let mut last = [0u64; MAX_WORKERS];
            let mut since = [Instant::now(); MAX_WORKERS];
            loop {
                std::thread::sleep(std::time::Duration::from_secs(2));
                for w in 0..MAX_WORKERS {
                    let hb = HEARTBEAT[w].load(Ordering::Relaxed);
                    if !BUSY[w].load(Ordering::Relaxed) || hb != last[w] {
                        last[w] = hb;
                        since[w] = Instant::now();
                    } else if since[w].elapsed().as_secs() >= limit {
                        let sub = CURRENT_SUB.lock().map(|g| g.clone()).unwrap_or_default();
                        eprintln!("vcheck: {prop}/{sub}: no verdict: worker {w} has been inside one case for more than {limit} s (case ordinal {hb} of that worker, VERIF_SEED {seed}): the code under test does not return for this input (a hang is reported as exit status 2, not as a violation)");
                        std::process::exit(2);
                    }
                }
            }
        });
    });
}

/// where evidence/ and replays/ are written: /verif, unless VERIF_OUT redirects a development run
fn out_dir(ctx: &Ctx) -> PathBuf {
    match std::env::var("VERIF_OUT") {
        Ok(d) if !d.is_empty() => PathBuf::from(d),
        _ => ctx.root.clone(),
    }
}

pub fn run_property(ctx: &Ctx, prop: &Property, only_sub: Option<&str>) -> RunOutcome {
    let start = *START.get_or_init(Instant::now);
    crate::props::warm::warm_process();
    let mut results = Vec::new();
    for sub in &prop.subs {
        if let Some(o) = only_sub {
            if o != sub.name() {
                continue;
            }
        }
        if HUNG.load(Ordering::SeqCst) {
            eprintln!("vcheck: {}/{}: skipped (a call of an earlier sub-check did not return; its abandoned thread is still running)", prop.id, sub.name());
            continue;
        }
        let t0 = Instant::now();
        start_watchdog(prop.id, ctx.seed, ctx.tier);
        if let Ok(mut g) = CURRENT_SUB.lock() {
            *g = sub.name().to_string();
        }
        let r = sub.run(ctx, prop.id);
        eprintln!(
            "vcheck: {}/{}: {} cases ({} inner), {} distinct non-trivial, {:.1}s{}",
            prop.id,
            r.name,
            r.stats.evaluations,
            r.stats.inner,
            r.stats.nontrivial.len(),
            t0.elapsed().as_secs_f64(),
            if r.failure.is_some() { "  ** FAILED **" } else { "" }
        );
        for h in &r.health {
            eprintln!("vcheck: {}/{}: {h}", prop.id, r.name);
        }
        results.push(r);
    }

    let mut violations = Vec::new();
    let mut known_lines = Vec::new();
    let mut inconclusive = Vec::new();
    for r in &results {
        for m in &r.stats.inconclusive {
            inconclusive.push(format!("{}/{}: {m}", prop.id, r.name));
        }
        for (sig, n) in &r.stats.known_hits {
            let text = ctx
                .known
                .iter()
                .find(|(p, s, _)| p == prop.id && s == sig)
                .map(|x| x.2.clone())
                .unwrap_or_default();
            known_lines.push(format!(
                "KNOWN-FINDING: property={} signature={} ({} generated cases excluded) {}",
                prop.id, sig, n, text
            ));
        }
        if let Some(f) = &r.failure {
            let dir = out_dir(ctx).join("replays");
            let _ = std::fs::create_dir_all(&dir);
            let body = json!({
                "property": prop.id,
                "subcheck": f.sub,
                "seed": ctx.seed,
                "tier": ctx.tier.name(),
                "key": f.key,
                "message": f.msg,
                "case": f.case,
            });
            let d = hash_str(&body["case"].to_string());
            let path = dir.join(format!("{}-{}-{:016x}.json", prop.id, f.sub, d));
            let _ = std::fs::write(&path, serde_json::to_string_pretty(&body).unwrap());
            violations.push((f.clone(), path));
        }
    }

    // evidence
    let mut evaluations = 0u64;
    let mut inner = 0u64;
    let mut distinct = 0u64;
    let mut samples = Vec::new();
    let mut rules = Vec::new();
    let mut subs_json = serde_json::Map::new();
    let mut all_exhaustive = !results.is_empty();
    for r in &results {
        evaluations += r.stats.evaluations;
        inner += r.stats.inner;
        distinct += r.stats.nontrivial.len() as u64;
        rules.push(format!("[{}] {}", r.name, r.rule));
        for s in r.stats.nontrivial_samples.iter().chain(r.stats.first_samples.iter()) {
            if samples.len() < 40 {
                samples.push(json!({"subcheck": r.name, "case": s}));
            }
        }
        all_exhaustive &= r.exhaustive;
        subs_json.insert(
            r.name.clone(),
            json!({
                "evaluations": r.stats.evaluations,
                "inner_evaluations": r.stats.inner,
                "distinct_nontrivial": r.stats.nontrivial.len(),
                "exhaustive": r.exhaustive,
                "classes": r.stats.classes,
                "metrics_max": r.stats.metrics_max,
                "excluded_known": r.stats.known_hits,
                "generator_health": r.health,
                "inconclusive": r.stats.inconclusive,
                "notes": r.notes,
                "failed": r.failure.as_ref().map(|f| f.msg.clone()),
            }),
        );
    }
    if only_sub.is_none() {
        let ev = json!({
            "property_id": prop.id,
            "tier": ctx.tier.name(),
            "seed": ctx.seed,
            "level": "exploration",
            "coverage": {
                "evaluations": evaluations,
                "inner_evaluations": inner,
                "distinct_nontrivial": distinct,
                "rule": rules.join(" | "),
                "samples": samples,
                "exhaustive": all_exhaustive,
                "subchecks": subs_json,
            },
            "assumptions": prop.assumptions,
            "wall_s": start.elapsed().as_secs_f64(),
            "violations": violations.len(),
        });
        let dir = out_dir(ctx).join("evidence");
        let _ = std::fs::create_dir_all(&dir);
        let path = dir.join(format!("{}.json", prop.id));
        if let Err(e) = std::fs::write(&path, serde_json::to_string_pretty(&ev).unwrap()) {
            eprintln!("vcheck: cannot write evidence {}: {e}", path.display());
        }
    }
    RunOutcome {
        violations,
        known_lines,
        inconclusive,
    }
}

/// Helper for index mapping that shrinks monotonically: maps `x` in 0..=65535 to 0..len
pub fn idx(x: u16, len: usize) -> usize {
    if len == 0 {
        0
    } else {
        ((x as usize) * len) >> 16
    }
}

/// Boxed strategy helper
pub fn boxed<S: Strategy + 'static>(s: S) -> BoxedStrategy<S::Value> {
    s.boxed()
}
