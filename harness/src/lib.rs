//! vcheck library: engine, own oracles and the per-property checks; shared by the
//! `vcheck` binary and the libFuzzer targets under fuzz/.

#![allow(clippy::needless_range_loop, clippy::type_complexity)]

pub mod common;
pub mod engine;
pub mod props;
