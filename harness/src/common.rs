//! Own (independent) implementations used as oracles: GF(2) bitset algebra,
//! graph search, alist reader/writer, SHA-256, plus the shared case types and
//! generators.

use ldpc_toolbox::sparse::SparseMatrix;
use proptest::prelude::*;
use serde::{Deserialize, Deserializer, Serialize, Serializer};
use std::collections::{BTreeSet, VecDeque};

// ---------------------------------------------------------------------------
// f64 wrapper that survives JSON (bit-exact) and prints readably

#[derive(Clone, Copy, PartialEq)]
pub struct Fx(pub f64);

impl std::fmt::Debug for Fx {
    fn fmt(&self, f: &mut std::fmt::Formatter<'_>) -> std::fmt::Result {
        write!(f, "{:e}#{:016x}", self.0, self.0.to_bits())
    }
}

impl Serialize for Fx {
    fn serialize<S: Serializer>(&self, s: S) -> Result<S::Ok, S::Error> {
        s.serialize_str(&format!("{:016x}|{:e}", self.0.to_bits(), self.0))
    }
}

impl<'de> Deserialize<'de> for Fx {
    fn deserialize<D: Deserializer<'de>>(d: D) -> Result<Fx, D::Error> {
        let s = String::deserialize(d)?;
        let hex = s.split('|').next().unwrap_or("");
        u64::from_str_radix(hex, 16)
            .map(|b| Fx(f64::from_bits(b)))
            .map_err(serde::de::Error::custom)
    }
}

pub fn fx_vec(v: &[Fx]) -> Vec<f64> {
    v.iter().map(|x| x.0).collect()
}

// ---------------------------------------------------------------------------
// Matrix case

#[derive(Debug, Clone, Serialize, Deserialize, PartialEq, Eq)]
pub struct Mat {
    pub rows: usize,
    pub cols: usize,
    /// (row, col) in insertion order; may contain duplicates only if a generator says so
    pub ones: Vec<(usize, usize)>,
}

impl Mat {
    pub fn new(rows: usize, cols: usize) -> Mat {
        Mat {
            rows,
            cols,
            ones: vec![],
        }
    }
    pub fn from_rows(rows: usize, cols: usize, r: &[Vec<usize>]) -> Mat {
        let mut ones = Vec::new();
        for (i, row) in r.iter().enumerate() {
            for &c in row {
                ones.push((i, c));
            }
        }
        Mat { rows, cols, ones }
    }
    pub fn from_dense(d: &[Vec<bool>]) -> Mat {
        let rows = d.len();
        let cols = d.first().map_or(0, |r| r.len());
        let mut ones = Vec::new();
        for (i, r) in d.iter().enumerate() {
            for (j, &b) in r.iter().enumerate() {
                if b {
                    ones.push((i, j));
                }
            }
        }
        Mat { rows, cols, ones }
    }
    pub fn from_sparse(h: &SparseMatrix) -> Mat {
        Mat {
            rows: h.num_rows(),
            cols: h.num_cols(),
            ones: h.iter_all().collect(),
        }
    }
    pub fn to_sparse(&self) -> SparseMatrix {
        let mut h = SparseMatrix::new(self.rows, self.cols);
        for &(r, c) in &self.ones {
            h.insert(r, c);
        }
        h
    }
    /// the same matrix built along another public construction path: 0 = single insertions (as
    /// `to_sparse`), 1 = one bulk `insert_row` per row (the list in insertion order, its first index
    /// repeated at the end: repeats are legal, every element is an idempotent insert), 2 = bulk
    /// `insert_col`, 3 = `set_row`, 4 = `from_alist` of the own padded text, 5 = of the own unpadded text
    pub fn to_sparse_by(&self, path: u8) -> SparseMatrix {
        let mut by_row: Vec<Vec<usize>> = vec![Vec::new(); self.rows];
        let mut by_col: Vec<Vec<usize>> = vec![Vec::new(); self.cols];
        for &(r, c) in &self.ones {
            by_row[r].push(c);
            by_col[c].push(r);
        }
        let with_repeat = |l: &Vec<usize>| -> Vec<usize> {
            let mut v = l.clone();
            if let Some(&f) = l.first() {
                v.push(f);
            }
            v
        };
        let built = match path % 6 {
            1 => {
                let mut h = SparseMatrix::new(self.rows, self.cols);
                for (r, l) in by_row.iter().enumerate() {
                    h.insert_row(r, with_repeat(l).iter());
                }
                h
            }
            2 => {
                let mut h = SparseMatrix::new(self.rows, self.cols);
                for (c, l) in by_col.iter().enumerate() {
                    h.insert_col(c, with_repeat(l).iter());
                }
                h
            }
            3 => {
                let mut h = SparseMatrix::new(self.rows, self.cols);
                for (r, l) in by_row.iter().enumerate() {
                    h.set_row(r, with_repeat(l).iter());
                }
                h
            }
            4 | 5 if self.rows > 0 && self.cols > 0 => SparseMatrix::from_alist(&own_alist(self, path % 6 == 4)).unwrap_or_else(|_| self.to_sparse()),
            _ => return self.to_sparse(),
        };
        // whether these paths build the right set of ones is the business of the checks of the matrix
        // type and of the parser (C17, C08); a consumer's check continues with the plainly built matrix
        if built.num_rows() == self.rows && built.num_cols() == self.cols && built.iter_all().collect::<BTreeSet<_>>() == self.set() {
            built
        } else {
            self.to_sparse()
        }
    }
    pub fn construction_path_name(path: u8) -> &'static str {
        ["single insertions", "bulk insert_row (with a repeated index)", "bulk insert_col (with a repeated index)", "set_row (with a repeated index)", "from_alist (padded text)", "from_alist (unpadded text)"][(path % 6) as usize]
    }
    pub fn set(&self) -> BTreeSet<(usize, usize)> {
        self.ones.iter().copied().collect()
    }
    pub fn row_lists(&self) -> Vec<Vec<usize>> {
        let mut r = vec![Vec::new(); self.rows];
        for &(i, j) in &self.set() {
            r[i].push(j);
        }
        r
    }
    pub fn col_lists(&self) -> Vec<Vec<usize>> {
        let mut c = vec![Vec::new(); self.cols];
        for &(i, j) in &self.set() {
            c[j].push(i);
        }
        c
    }
    pub fn to_bits(&self) -> BitMat {
        let mut b = BitMat::zero(self.rows, self.cols);
        for &(i, j) in &self.set() {
            b.set(i, j, true);
        }
        b
    }
    pub fn syndrome_ok(&self, word: &[u8]) -> bool {
        let mut s = vec![0u8; self.rows];
        for &(i, j) in &self.set() {
            s[i] ^= word[j] & 1;
        }
        s.iter().all(|&x| x == 0)
    }
}

pub fn sparse_set(h: &SparseMatrix) -> BTreeSet<(usize, usize)> {
    let mut s = BTreeSet::new();
    for c in 0..h.num_cols() {
        for r in 0..h.num_rows() {
            if h.contains(r, c) {
                s.insert((r, c));
            }
        }
    }
    s
}

// ---------------------------------------------------------------------------
// GF(2) dense bit matrices

#[derive(Clone, PartialEq, Eq)]
pub struct BitMat {
    pub rows: usize,
    pub cols: usize,
    w: usize,
    d: Vec<u64>,
}

impl std::fmt::Debug for BitMat {
    fn fmt(&self, f: &mut std::fmt::Formatter<'_>) -> std::fmt::Result {
        writeln!(f, "BitMat {}x{}", self.rows, self.cols)?;
        for i in 0..self.rows.min(40) {
            let s: String = (0..self.cols.min(120))
                .map(|j| if self.get(i, j) { '1' } else { '0' })
                .collect();
            writeln!(f, "  {s}")?;
        }
        Ok(())
    }
}

impl BitMat {
    pub fn zero(rows: usize, cols: usize) -> BitMat {
        let w = cols.div_ceil(64).max(1);
        BitMat {
            rows,
            cols,
            w,
            d: vec![0; rows * w],
        }
    }
    pub fn identity(n: usize) -> BitMat {
        let mut m = BitMat::zero(n, n);
        for i in 0..n {
            m.set(i, i, true);
        }
        m
    }
    #[inline]
    pub fn get(&self, i: usize, j: usize) -> bool {
        (self.d[i * self.w + j / 64] >> (j % 64)) & 1 == 1
    }
    #[inline]
    pub fn set(&mut self, i: usize, j: usize, v: bool) {
        let m = 1u64 << (j % 64);
        if v {
            self.d[i * self.w + j / 64] |= m;
        } else {
            self.d[i * self.w + j / 64] &= !m;
        }
    }
    #[inline]
    pub fn flip(&mut self, i: usize, j: usize) {
        self.d[i * self.w + j / 64] ^= 1u64 << (j % 64);
    }
    fn xor_row(&mut self, dst: usize, src: usize) {
        let (w, d) = (self.w, &mut self.d);
        for k in 0..w {
            let v = d[src * w + k];
            d[dst * w + k] ^= v;
        }
    }
    fn swap_rows(&mut self, a: usize, b: usize) {
        if a != b {
            for k in 0..self.w {
                self.d.swap(a * self.w + k, b * self.w + k);
            }
        }
    }
    pub fn submatrix_cols(&self, from: usize, to: usize) -> BitMat {
        let mut m = BitMat::zero(self.rows, to - from);
        for i in 0..self.rows {
            for j in from..to {
                if self.get(i, j) {
                    m.set(i, j - from, true);
                }
            }
        }
        m
    }
    pub fn column(&self, j: usize) -> Vec<bool> {
        (0..self.rows).map(|i| self.get(i, j)).collect()
    }
    pub fn mul(&self, o: &BitMat) -> BitMat {
        assert_eq!(self.cols, o.rows);
        let mut r = BitMat::zero(self.rows, o.cols);
        for i in 0..self.rows {
            for k in 0..self.cols {
                if self.get(i, k) {
                    for w in 0..o.w {
                        r.d[i * r.w + w] ^= o.d[k * o.w + w];
                    }
                }
            }
        }
        r
    }
    /// Rank by elimination (destroys a copy).
    pub fn rank(&self) -> usize {
        self.clone().eliminate().len()
    }
    /// Reduced row echelon form in place; returns pivot columns.
    pub fn eliminate(&mut self) -> Vec<usize> {
        let mut pivots = Vec::new();
        let mut r = 0;
        for c in 0..self.cols {
            if r == self.rows {
                break;
            }
            let Some(p) = (r..self.rows).find(|&i| self.get(i, c)) else {
                continue;
            };
            self.swap_rows(r, p);
            for i in 0..self.rows {
                if i != r && self.get(i, c) {
                    self.xor_row(i, r);
                }
            }
            pivots.push(c);
            r += 1;
        }
        pivots
    }
    pub fn mul_vec(&self, v: &[u8]) -> Vec<u8> {
        (0..self.rows)
            .map(|i| {
                let mut s = 0u8;
                for j in 0..self.cols {
                    if self.get(i, j) {
                        s ^= v[j] & 1;
                    }
                }
                s
            })
            .collect()
    }
    /// A basis of the null space (vectors of length cols).
    pub fn nullspace(&self) -> Vec<Vec<u8>> {
        let mut m = self.clone();
        let piv = m.eliminate();
        let pivset: BTreeSet<usize> = piv.iter().copied().collect();
        let mut basis = Vec::new();
        for f in 0..self.cols {
            if pivset.contains(&f) {
                continue;
            }
            let mut v = vec![0u8; self.cols];
            v[f] = 1;
            for (r, &pc) in piv.iter().enumerate() {
                if m.get(r, f) {
                    v[pc] = 1;
                }
            }
            basis.push(v);
        }
        basis
    }
    /// Solve self * x = b for some x if one exists.
    pub fn solve(&self, b: &[u8]) -> Option<Vec<u8>> {
        let mut aug = BitMat::zero(self.rows, self.cols + 1);
        for i in 0..self.rows {
            for j in 0..self.cols {
                if self.get(i, j) {
                    aug.set(i, j, true);
                }
            }
            if b[i] & 1 == 1 {
                aug.set(i, self.cols, true);
            }
        }
        let piv = aug.eliminate();
        if piv.contains(&self.cols) {
            return None;
        }
        let mut x = vec![0u8; self.cols];
        for (r, &pc) in piv.iter().enumerate() {
            if aug.get(r, self.cols) {
                x[pc] = 1;
            }
        }
        Some(x)
    }
}

// ---------------------------------------------------------------------------
// Tanner graph oracles. Node ids: row i -> i, column j -> rows + j.

pub struct Graph {
    pub rows: usize,
    pub cols: usize,
    pub adj: Vec<Vec<usize>>,
}

impl Graph {
    pub fn from_mat(m: &Mat) -> Graph {
        let mut adj = vec![Vec::new(); m.rows + m.cols];
        for &(i, j) in &m.set() {
            adj[i].push(m.rows + j);
            adj[m.rows + j].push(i);
        }
        Graph {
            rows: m.rows,
            cols: m.cols,
            adj,
        }
    }
    pub fn n(&self) -> usize {
        self.rows + self.cols
    }
    /// plain queue BFS, optionally ignoring one undirected edge
    pub fn dist(&self, root: usize, skip: Option<(usize, usize)>) -> Vec<Option<usize>> {
        let mut d = vec![None; self.n()];
        d[root] = Some(0);
        let mut q = VecDeque::from([root]);
        while let Some(u) = q.pop_front() {
            for &v in &self.adj[u] {
                if let Some((a, b)) = skip {
                    if (u == a && v == b) || (u == b && v == a) {
                        continue;
                    }
                }
                if d[v].is_none() {
                    d[v] = Some(d[u].unwrap() + 1);
                    q.push_back(v);
                }
            }
        }
        d
    }
    /// shortest cycle through `v` (edge-deletion definition)
    pub fn local_girth(&self, v: usize) -> Option<usize> {
        let mut best: Option<usize> = None;
        for &w in &self.adj[v] {
            let d = self.dist(w, Some((v, w)));
            if let Some(x) = d[v] {
                let c = x + 1;
                if best.is_none_or(|b| c < b) {
                    best = Some(c);
                }
            }
        }
        best
    }
    pub fn girth(&self) -> Option<usize> {
        (0..self.n()).filter_map(|v| self.local_girth(v)).min()
    }
}

// ---------------------------------------------------------------------------
// Own alist writer / strict reader

pub fn own_alist(m: &Mat, padded: bool) -> String {
    let cols = m.col_lists();
    let rows = m.row_lists();
    let maxc = cols.iter().map(|c| c.len()).max().unwrap_or(0);
    let maxr = rows.iter().map(|c| c.len()).max().unwrap_or(0);
    let mut s = String::new();
    s.push_str(&format!("{} {}\n", m.cols, m.rows));
    s.push_str(&format!("{maxc} {maxr}\n"));
    let join = |v: Vec<String>| v.join(" ");
    s.push_str(&join(cols.iter().map(|c| c.len().to_string()).collect()));
    s.push('\n');
    s.push_str(&join(rows.iter().map(|c| c.len().to_string()).collect()));
    s.push('\n');
    for (lists, mx) in [(&cols, maxc), (&rows, maxr)] {
        for l in lists.iter() {
            let mut toks: Vec<String> = l.iter().map(|x| (x + 1).to_string()).collect();
            if padded {
                while toks.len() < mx.max(1) {
                    toks.push("0".to_string());
                }
            }
            s.push_str(&toks.join(" "));
            s.push('\n');
        }
    }
    s
}

/// Strict reader of what the format prescribes. `padded`: Some(true) demands
/// padding to the maximum weight, Some(false) demands none, None accepts both.
pub fn strict_alist(text: &str, padded: Option<bool>) -> Result<Mat, String> {
    let mut lines = text.split('\n').collect::<Vec<_>>();
    if lines.last() == Some(&"") {
        lines.pop();
    } else {
        return Err("text does not end with a newline".into());
    }
    let nums = |l: &str| -> Result<Vec<usize>, String> {
        l.split(' ')
            .filter(|t| !t.is_empty())
            .map(|t| t.parse::<usize>().map_err(|_| format!("bad token {t:?}")))
            .collect()
    };
    if lines.len() < 4 {
        return Err("fewer than 4 lines".into());
    }
    let hdr = nums(lines[0])?;
    if hdr.len() != 2 {
        return Err("header must be 'ncols nrows'".into());
    }
    let (n, m) = (hdr[0], hdr[1]);
    let mx = nums(lines[1])?;
    if mx.len() != 2 {
        return Err("max-weight line must have two numbers".into());
    }
    let cw = nums(lines[2])?;
    let rw = nums(lines[3])?;
    if cw.len() != n || rw.len() != m {
        return Err(format!(
            "weight lines have {} / {} entries, expected {n} / {m}",
            cw.len(),
            rw.len()
        ));
    }
    if cw.iter().copied().max().unwrap_or(0) != mx[0] || rw.iter().copied().max().unwrap_or(0) != mx[1] {
        return Err("max-weight line is not the true maxima".into());
    }
    if lines.len() != 4 + n + m {
        return Err(format!("{} lines, expected {}", lines.len(), 4 + n + m));
    }
    let mut by_col = BTreeSet::new();
    let mut by_row = BTreeSet::new();
    for (k, line) in lines[4..].iter().enumerate() {
        let is_col = k < n;
        let idx = if is_col { k } else { k - n };
        let (w, limit, maxw) = if is_col { (cw[idx], m, mx[0]) } else { (rw[idx], n, mx[1]) };
        let toks = nums(line)?;
        let nz: Vec<usize> = toks.iter().copied().take_while(|&x| x != 0).collect();
        if toks[nz.len()..].iter().any(|&x| x != 0) {
            return Err(format!("line {}: non-zero after padding zero", k + 5));
        }
        if nz.len() != w {
            return Err(format!("line {}: {} entries, weight line says {w}", k + 5, nz.len()));
        }
        if !nz.windows(2).all(|p| p[0] < p[1]) {
            return Err(format!("line {}: indices not strictly increasing", k + 5));
        }
        if nz.iter().any(|&x| x > limit) {
            return Err(format!("line {}: index out of range", k + 5));
        }
        let zeros = toks.len() - nz.len();
        let want_padded = if w == 0 { maxw.max(1) } else { maxw - w };
        match padded {
            Some(true) => {
                if zeros != want_padded {
                    return Err(format!("line {}: {zeros} padding zeros, expected {want_padded}", k + 5));
                }
            }
            Some(false) => {
                if zeros != 0 {
                    return Err(format!("line {}: unexpected padding", k + 5));
                }
            }
            None => {}
        }
        for x in nz {
            if is_col {
                by_col.insert((x - 1, idx));
            } else {
                by_row.insert((idx, x - 1));
            }
        }
    }
    if by_col != by_row {
        return Err("column section and row section describe different matrices".into());
    }
    Ok(Mat {
        rows: m,
        cols: n,
        ones: by_col.into_iter().collect(),
    })
}

// ---------------------------------------------------------------------------
// SHA-256 (own implementation, for golden digests)

pub fn sha256(data: &[u8]) -> [u8; 32] {
    const K: [u32; 64] = [
        0x428a2f98, 0x71374491, 0xb5c0fbcf, 0xe9b5dba5, 0x3956c25b, 0x59f111f1, 0x923f82a4, 0xab1c5ed5, 0xd807aa98,
        0x12835b01, 0x243185be, 0x550c7dc3, 0x72be5d74, 0x80deb1fe, 0x9bdc06a7, 0xc19bf174, 0xe49b69c1, 0xefbe4786,
        0x0fc19dc6, 0x240ca1cc, 0x2de92c6f, 0x4a7484aa, 0x5cb0a9dc, 0x76f988da, 0x983e5152, 0xa831c66d, 0xb00327c8,
        0xbf597fc7, 0xc6e00bf3, 0xd5a79147, 0x06ca6351, 0x14292967, 0x27b70a85, 0x2e1b2138, 0x4d2c6dfc, 0x53380d13,
        0x650a7354, 0x766a0abb, 0x81c2c92e, 0x92722c85, 0xa2bfe8a1, 0xa81a664b, 0xc24b8b70, 0xc76c51a3, 0xd192e819,
        0xd6990624, 0xf40e3585, 0x106aa070, 0x19a4c116, 0x1e376c08, 0x2748774c, 0x34b0bcb5, 0x391c0cb3, 0x4ed8aa4a,
        0x5b9cca4f, 0x682e6ff3, 0x748f82ee, 0x78a5636f, 0x84c87814, 0x8cc70208, 0x90befffa, 0xa4506ceb, 0xbef9a3f7,
        0xc67178f2,
    ];
    let mut h: [u32; 8] = [
        0x6a09e667, 0xbb67ae85, 0x3c6ef372, 0xa54ff53a, 0x510e527f, 0x9b05688c, 0x1f83d9ab, 0x5be0cd19,
    ];
    let mut msg = data.to_vec();
    let bitlen = (data.len() as u64) * 8;
    msg.push(0x80);
    while msg.len() % 64 != 56 {
        msg.push(0);
    }
    msg.extend_from_slice(&bitlen.to_be_bytes());
    for chunk in msg.chunks(64) {
        let mut w = [0u32; 64];
        for i in 0..16 {
            w[i] = u32::from_be_bytes([chunk[4 * i], chunk[4 * i + 1], chunk[4 * i + 2], chunk[4 * i + 3]]);
        }
        for i in 16..64 {
            let s0 = w[i - 15].rotate_right(7) ^ w[i - 15].rotate_right(18) ^ (w[i - 15] >> 3);
            let s1 = w[i - 2].rotate_right(17) ^ w[i - 2].rotate_right(19) ^ (w[i - 2] >> 10);
            w[i] = w[i - 16].wrapping_add(s0).wrapping_add(w[i - 7]).wrapping_add(s1);
        }
        let mut v = h;
        for i in 0..64 {
            let s1 = v[4].rotate_right(6) ^ v[4].rotate_right(11) ^ v[4].rotate_right(25);
            let ch = (v[4] & v[5]) ^ (!v[4] & v[6]);
            let t1 = v[7].wrapping_add(s1).wrapping_add(ch).wrapping_add(K[i]).wrapping_add(w[i]);
            let s0 = v[0].rotate_right(2) ^ v[0].rotate_right(13) ^ v[0].rotate_right(22);
            let maj = (v[0] & v[1]) ^ (v[0] & v[2]) ^ (v[1] & v[2]);
            let t2 = s0.wrapping_add(maj);
            v[7] = v[6];
            v[6] = v[5];
            v[5] = v[4];
            v[4] = v[3].wrapping_add(t1);
            v[3] = v[2];
            v[2] = v[1];
            v[1] = v[0];
            v[0] = t1.wrapping_add(t2);
        }
        for i in 0..8 {
            h[i] = h[i].wrapping_add(v[i]);
        }
    }
    let mut out = [0u8; 32];
    for i in 0..8 {
        out[4 * i..4 * i + 4].copy_from_slice(&h[i].to_be_bytes());
    }
    out
}

pub fn hex(b: &[u8]) -> String {
    b.iter().map(|x| format!("{x:02x}")).collect()
}

/// canonical digest of a matrix: sha256 of "rows cols\n" + sorted "r c\n" lines
pub fn matrix_digest(rows: usize, cols: usize, ones: &BTreeSet<(usize, usize)>) -> String {
    let mut s = format!("{rows} {cols}\n");
    for (r, c) in ones {
        s.push_str(&format!("{r} {c}\n"));
    }
    hex(&sha256(s.as_bytes()))
}

// ---------------------------------------------------------------------------
// Generators shared by several properties

/// distinct sorted subset of 0..n of size k (k<=n), by construction
pub fn subset(n: usize, k: std::ops::RangeInclusive<usize>) -> impl Strategy<Value = Vec<usize>> {
    let lo = (*k.start()).min(n);
    let hi = (*k.end()).min(n);
    proptest::sample::subsequence((0..n).collect::<Vec<_>>(), lo..=hi)
}

/// the same matrix with its ones inserted in a random order (the internal entry order of a
/// SparseMatrix follows insertion and is visible to order-sensitive code)
pub fn shuffled(m: impl Strategy<Value = Mat>) -> impl Strategy<Value = Mat> {
    m.prop_flat_map(|m| (Just(m.rows), Just(m.cols), Just(m.ones).prop_shuffle())).prop_map(|(rows, cols, ones)| Mat { rows, cols, ones })
}

/// r x n matrix with every row weight >= 2 (decoder-compatible), with classes
pub fn decoder_matrix(max_r: usize, max_n: usize) -> impl Strategy<Value = Mat> {
    shuffled(decoder_matrix_sorted(max_r, max_n))
}

/// the same classes with the number of columns drawn from min_n..=max_n
pub fn decoder_matrix_range(max_r: usize, min_n: usize, max_n: usize) -> impl Strategy<Value = Mat> {
    shuffled(decoder_matrix_sorted_range(max_r, min_n, max_n))
}

fn decoder_matrix_sorted(max_r: usize, max_n: usize) -> impl Strategy<Value = Mat> {
    decoder_matrix_sorted_range(max_r, 2, max_n)
}

fn decoder_matrix_sorted_range(max_r: usize, min_n: usize, max_n: usize) -> impl Strategy<Value = Mat> {
    (1..=max_r, min_n.max(2)..=max_n, 0..6u8).prop_flat_map(|(r, n, class)| {
        let row = move |lo: usize, hi: usize| subset(n, lo.max(2)..=hi.max(2).min(n));
        let rows: BoxedStrategy<Vec<Vec<usize>>> = match class {
            // regular-ish sparse
            0 => proptest::collection::vec(row(2, 3), r).boxed(),
            // one dense row
            1 => (proptest::collection::vec(row(2, 4), r), row(n.max(2) - 1, n))
                .prop_map(|(mut v, d)| {
                    v[0] = d;
                    v
                })
                .boxed(),
            // duplicate rows
            2 => (proptest::collection::vec(row(2, 4), r), 0..r, 0..r)
                .prop_map(|(mut v, a, b)| {
                    v[a] = v[b].clone();
                    v
                })
                .boxed(),
            // high column degree: all rows share the first two columns
            3 => proptest::collection::vec(subset(n, 0..=3), r)
                .prop_map(|v| {
                    v.into_iter()
                        .map(|mut x| {
                            for c in [0usize, 1] {
                                if !x.contains(&c) {
                                    x.push(c);
                                }
                            }
                            x
                        })
                        .collect()
                })
                .boxed(),
            // medium density
            4 => proptest::collection::vec(row(2, n / 2 + 1), r).boxed(),
            // anything
            _ => proptest::collection::vec(row(2, n), r).boxed(),
        };
        rows.prop_map(move |rows| Mat::from_rows(r, n, &rows))
    })
}

/// catalogue of special LLR values (property C01/C05 quantifier text)
pub fn special_llr() -> impl Strategy<Value = f64> {
    let ulp = |x: f64, up: bool| f64::from_bits(if up { x.to_bits() + 1 } else { x.to_bits() - 1 });
    prop_oneof![
        Just(0.0),
        Just(-0.0),
        Just(5e-324),
        Just(-5e-324),
        Just(1e-30),
        Just(-1e-30),
        Just(1e30),
        Just(-1e30),
        Just(1e10),
        Just(-1e10),
        Just(15.875),
        Just(-15.875),
        Just(15.8125),
        Just(-15.8125),
        Just(12.5),
        Just(-12.5),
        Just(14.5),
        Just(-14.5),
        Just(36.0),
        Just(37.0),
        Just(-37.0),
        Just(700.0),
        Just(-700.0),
        // 8-bit rounding boundaries k/16 +- 1ulp
        (-260i32..=260, 0..3u8).prop_map(move |(k, w)| {
            let x = k as f64 * 0.0625;
            match w {
                0 => x,
                1 => {
                    if x == 0.0 {
                        5e-324
                    } else {
                        ulp(x, true)
                    }
                }
                _ => {
                    if x == 0.0 {
                        -5e-324
                    } else {
                        ulp(x, false)
                    }
                }
            }
        }),
        (-30i32..=30, any::<bool>()).prop_map(|(e, s)| if s { -(10f64.powi(e)) } else { 10f64.powi(e) }),
    ]
}

pub fn any_llr() -> impl Strategy<Value = f64> {
    prop_oneof![
        6 => -10.0f64..10.0,
        2 => -1.5f64..1.5,
        2 => special_llr(),
        1 => -40.0f64..40.0,
    ]
}

// ---------------------------------------------------------------------------
// Large-graph helpers (code tables)

/// adjacency lists of the Tanner graph: rows 0..r, columns r..r+c
pub fn adjacency(h: &SparseMatrix) -> Vec<Vec<u32>> {
    let (r, c) = (h.num_rows(), h.num_cols());
    let mut adj: Vec<Vec<u32>> = vec![Vec::new(); r + c];
    for j in 0..c {
        for &i in h.iter_col(j) {
            adj[i].push((r + j) as u32);
            adj[r + j].push(i as u32);
        }
    }
    adj
}

/// Exact girth if it is <= maxlen, else None (BFS from every node, depth maxlen/2;
/// every non-tree edge met gives the candidate d[u]+d[v]+1, minimum over all roots).
pub fn bounded_girth(adj: &[Vec<u32>], maxlen: usize) -> Option<usize> {
    let n = adj.len();
    let mut stamp = vec![u32::MAX; n];
    let mut dist = vec![0u32; n];
    let mut parent = vec![u32::MAX; n];
    let mut best: Option<usize> = None;
    let depth = (maxlen / 2) as u32;
    let mut queue: Vec<u32> = Vec::new();
    for root in 0..n {
        let tag = root as u32;
        queue.clear();
        queue.push(root as u32);
        stamp[root] = tag;
        dist[root] = 0;
        parent[root] = u32::MAX;
        let mut qi = 0;
        while qi < queue.len() {
            let u = queue[qi] as usize;
            qi += 1;
            if dist[u] >= depth {
                continue;
            }
            for &v in &adj[u] {
                let v = v as usize;
                if stamp[v] != tag {
                    stamp[v] = tag;
                    dist[v] = dist[u] + 1;
                    parent[v] = u as u32;
                    queue.push(v as u32);
                } else if parent[u] != v as u32 {
                    let cand = (dist[u] + dist[v] + 1) as usize;
                    if cand <= maxlen && best.is_none_or(|b| cand < b) {
                        best = Some(cand);
                    }
                }
            }
        }
    }
    best
}

/// true if two rows share two columns (a cycle of length 4)
pub fn has_four_cycle(h: &SparseMatrix) -> Option<(usize, usize, usize)> {
    let mut pairs: Vec<(u64, u32)> = Vec::new();
    for r in 0..h.num_rows() {
        let mut cols: Vec<usize> = h.iter_row(r).copied().collect();
        cols.sort_unstable();
        for a in 0..cols.len() {
            for b in (a + 1)..cols.len() {
                pairs.push((((cols[a] as u64) << 32) | cols[b] as u64, r as u32));
            }
        }
    }
    pairs.sort_unstable();
    for w in pairs.windows(2) {
        if w[0].0 == w[1].0 {
            return Some(((w[0].0 >> 32) as usize, (w[0].0 & 0xffff_ffff) as usize, w[0].1 as usize));
        }
    }
    None
}

pub fn sorted_columns(h: &SparseMatrix) -> Vec<Vec<usize>> {
    (0..h.num_cols())
        .map(|c| {
            let mut v: Vec<usize> = h.iter_col(c).copied().collect();
            v.sort_unstable();
            v
        })
        .collect()
}

pub fn sorted_rows(h: &SparseMatrix) -> Vec<Vec<usize>> {
    (0..h.num_rows())
        .map(|r| {
            let mut v: Vec<usize> = h.iter_row(r).copied().collect();
            v.sort_unstable();
            v
        })
        .collect()
}

/// canonical digest from sorted column lists
pub fn columns_digest(rows: usize, cols: &[Vec<usize>]) -> String {
    let mut edges: Vec<(usize, usize)> = Vec::new();
    for (c, l) in cols.iter().enumerate() {
        for &r in l {
            edges.push((r, c));
        }
    }
    edges.sort_unstable();
    let mut s = String::with_capacity(edges.len() * 12 + 32);
    s.push_str(&format!("{rows} {}\n", cols.len()));
    for (r, c) in edges {
        s.push_str(&format!("{r} {c}\n"));
    }
    hex(&sha256(s.as_bytes()))
}

pub fn syndrome_rows_ok(rows: &[Vec<usize>], word: &[u8]) -> bool {
    rows.iter().all(|r| r.iter().fold(0u8, |a, &c| a ^ (word[c] & 1)) == 0)
}

/// golden directory
pub fn golden_dir() -> std::path::PathBuf {
    std::path::PathBuf::from(std::env::var("VERIF_DIR").unwrap_or_else(|_| "/verif".to_string())).join("golden")
}

pub fn read_table(path: &std::path::Path) -> Result<Vec<Vec<usize>>, String> {
    let text = std::fs::read_to_string(path).map_err(|e| format!("cannot read {}: {e}", path.display()))?;
    let mut out = Vec::new();
    for line in text.lines() {
        if line.starts_with('#') || line.trim().is_empty() {
            continue;
        }
        out.push(line.split_whitespace().map(|t| t.parse::<usize>().map_err(|e| format!("{}: {e}", path.display()))).collect::<Result<Vec<_>, _>>()?);
    }
    Ok(out)
}

pub fn read_digests(path: &std::path::Path) -> std::collections::BTreeMap<String, String> {
    let mut m = std::collections::BTreeMap::new();
    if let Ok(text) = std::fs::read_to_string(path) {
        for line in text.lines() {
            let mut it = line.split_whitespace();
            if let (Some(a), Some(b)) = (it.next(), it.next()) {
                m.insert(a.to_string(), b.to_string());
            }
        }
    }
    m
}

// ---------------------------------------------------------------------------
// array layouts: the simulation stages and the encoder accept any one-dimensional
// `ArrayBase<S, Ix1>`, i.e. also strided, reversed and offset views

pub const LAYOUTS: u8 = 6;

pub fn layout_name(layout: u8) -> &'static str {
    match layout % LAYOUTS {
        0 => "owned-standard",
        1 => "reversed-view(stride -1)",
        2 => "view(stride 2)",
        3 => "view(stride -2)",
        4 => "offset-subrange",
        _ => "owned-from-reversed-view",
    }
}

/// calls `f` with a one-dimensional array (view) whose *logical* contents are `data` but whose
/// memory layout is the requested one; `filler` occupies the memory cells the view skips
pub fn with_layout<T: Clone, R>(data: &[T], filler: T, layout: u8, f: impl FnOnce(ndarray::ArrayView1<T>) -> R) -> R {
    use ndarray::{Array1, s};
    let n = data.len();
    match layout % LAYOUTS {
        0 => f(Array1::from_vec(data.to_vec()).view()),
        1 => {
            let backing = Array1::from_vec(data.iter().rev().cloned().collect());
            f(backing.slice(s![..;-1]))
        }
        2 => {
            let mut b = vec![filler; 2 * n];
            for (i, x) in data.iter().enumerate() {
                b[2 * i] = x.clone();
            }
            let backing = Array1::from_vec(b);
            f(backing.slice(s![..;2]))
        }
        3 => {
            // s![..;-2] of a length-2n array visits 2n-1, 2n-3, ..., 1
            let mut b = vec![filler; 2 * n];
            for (i, x) in data.iter().enumerate() {
                b[2 * n - 1 - 2 * i] = x.clone();
            }
            let backing = Array1::from_vec(b);
            f(backing.slice(s![..;-2]))
        }
        4 => {
            let mut b = vec![filler.clone(); 1];
            b.extend(data.iter().cloned());
            b.push(filler.clone());
            b.push(filler);
            let backing = Array1::from_vec(b);
            f(backing.slice(s![1..n + 1]))
        }
        _ => {
            // to_owned() of a reversed view keeps the negative stride
            let backing = Array1::from_vec(data.iter().rev().cloned().collect());
            let owned = backing.slice(s![..;-1]).to_owned();
            f(owned.view())
        }
    }
}

// ---------------------------------------------------------------------------
// byte tape -> matrix (fuzz targets): byte 0 = rows, byte 1 = columns, byte 2 = mode
// (even: the tape continues with (row, column) pairs, inserted in tape order; odd: bitmap)

pub fn mat_from_bytes(data: &[u8], maxdim: usize, wide: bool) -> (Mat, u64) {
    let b = |i: usize| data.get(i).copied().unwrap_or(0) as usize;
    let mut rows = 1 + b(0) % maxdim;
    let mut cols = 1 + b(1) % maxdim;
    if wide && rows > cols {
        std::mem::swap(&mut rows, &mut cols);
    }
    let mut m = Mat::new(rows, cols);
    let mut seen = BTreeSet::new();
    let body = data.get(3..).unwrap_or(&[]);
    if b(2) % 2 == 0 {
        for pr in body.chunks_exact(2) {
            let e = (pr[0] as usize % rows, pr[1] as usize % cols);
            if seen.insert(e) {
                m.ones.push(e);
            }
        }
    } else {
        for i in 0..rows * cols {
            if body.get(i / 8).is_some_and(|x| (x >> (i % 8)) & 1 == 1) {
                m.ones.push((i / cols, i % cols));
            }
        }
    }
    let mut salt = 0xcbf2_9ce4_8422_2325u64;
    for x in data.iter().take(64) {
        salt = (salt ^ *x as u64).wrapping_mul(0x100_0000_01b3);
    }
    (m, salt)
}


/// an iterator adaptor that yields what the inner iterator yields but reports another (still
/// truthful) size hint: 0 = the inner hint, 1 = (0, None), 2 = (0, Some(usize::MAX)), 3 = (0, inner
/// upper bound). Iterators over filtered, chained or unbounded sources report such hints.
pub struct Hinted<I> {
    pub inner: I,
    pub kind: u8,
}

impl<I: Iterator> Iterator for Hinted<I> {
    type Item = I::Item;
    fn next(&mut self) -> Option<I::Item> {
        self.inner.next()
    }
    fn size_hint(&self) -> (usize, Option<usize>) {
        match self.kind % 4 {
            0 => self.inner.size_hint(),
            1 => (0, None),
            2 => (0, Some(usize::MAX)),
            _ => (0, self.inner.size_hint().1),
        }
    }
}


/// runs `f` on another thread and returns its result (a panic is re-raised here): objects built on
/// one thread are used on another, as a simulation engine hands decoders to its workers. The other
/// thread belongs to a small pool kept for this purpose (spawning a thread per call costs too much
/// under load); nothing is ever constructed on those threads, they only use what they are handed.
pub fn on_other_thread<R: Send>(f: impl FnOnce() -> R + Send) -> R {
    static POOL: std::sync::OnceLock<Option<rayon::ThreadPool>> = std::sync::OnceLock::new();
    match POOL.get_or_init(|| rayon::ThreadPoolBuilder::new().num_threads(8).thread_name(|i| format!("moved-to-{i}")).build().ok()) {
        Some(pool) => pool.install(f),
        None => match std::thread::scope(|s| s.spawn(f).join()) {
            Ok(r) => r,
            Err(e) => std::panic::resume_unwind(e),
        },
    }
}


/// makes `text` readable under `path`: as a regular file, or, if `pipe`, as a named pipe whose writer
/// (a detached thread that waits for a reader) delivers the text in two pieces 40 ms apart, as
/// `mkfifo` and a slow producer would. Falls back to a regular file where no pipe can be made.
pub fn write_file_or_pipe(path: &std::path::Path, text: &str, pipe: bool) -> std::io::Result<()> {
    if pipe && text.len() >= 2 {
        let c = std::ffi::CString::new(path.to_str().unwrap_or("")).unwrap_or_default();
        let _ = std::fs::remove_file(path);
        if unsafe { libc::mkfifo(c.as_ptr(), 0o600) } == 0 {
            let (p, t) = (path.to_path_buf(), text.as_bytes().to_vec());
            std::thread::spawn(move || {
                use std::io::Write;
                // blocks until somebody opens the pipe for reading
                if let Ok(mut f) = std::fs::OpenOptions::new().write(true).open(&p) {
                    let cut = t.len() * 2 / 5 + 1;
                    let _ = f.write_all(&t[..cut]);
                    let _ = f.flush();
                    std::thread::sleep(std::time::Duration::from_millis(40));
                    let _ = f.write_all(&t[cut..]);
                }
            });
            return Ok(());
        }
    }
    std::fs::write(path, text)
}


/// an iterator that is not fused: it yields the first `stop` items, then None once, then the
/// remaining items (and None from then on). A consumer that stops at the first None, as a `for`
/// loop does, sees the first `stop` items only.
pub struct Unfused {
    items: Vec<usize>,
    stop: usize,
    pos: usize,
    paused: bool,
}

impl Unfused {
    pub fn new(items: Vec<usize>, stop: usize) -> Unfused {
        Unfused { items, stop, pos: 0, paused: false }
    }
}

impl Iterator for Unfused {
    type Item = usize;
    fn next(&mut self) -> Option<usize> {
        if self.pos == self.stop && !self.paused {
            self.paused = true;
            return None;
        }
        let x = self.items.get(self.pos).copied();
        if x.is_some() {
            self.pos += 1;
        }
        x
    }
}
