//! vcheck — property-based checks for ldpc-toolbox (see /verif/DESIGN.md)
//!
//!   vcheck run <Cxx> --tier quick|thorough [--seed N] [--sub name]
//!   vcheck replay <file.json>
//!   vcheck child <kind> ...          (internal, crash/hang isolation)
//!   vcheck selftest

#![allow(clippy::needless_range_loop, clippy::type_complexity)]

use vcheck::engine::{self, Tier, make_ctx, run_property};
use vcheck::props;

fn usage() -> ! {
    eprintln!("usage: vcheck run <Cxx> --tier quick|thorough [--seed N] [--sub NAME]\n       vcheck replay <file>\n       vcheck selftest");
    std::process::exit(2)
}

fn main() {
    engine::install_panic_hook();
    let args: Vec<String> = std::env::args().collect();
    if args.len() < 2 {
        usage();
    }
    match args[1].as_str() {
        "run" => {
            if args.len() < 3 {
                usage();
            }
            let id = args[2].clone();
            let mut tier = match std::env::var("VERIF_TIER").as_deref() {
                Ok("thorough") => Tier::Thorough,
                _ => Tier::Quick,
            };
            let mut seed: u64 = std::env::var("VERIF_SEED")
                .ok()
                .and_then(|s| s.trim().parse::<i64>().ok())
                .map(|x| x as u64)
                .unwrap_or(0);
            let mut sub = None;
            let mut i = 3;
            while i < args.len() {
                match args[i].as_str() {
                    "--tier" => {
                        i += 1;
                        tier = match args.get(i).map(|s| s.as_str()) {
                            Some("quick") => Tier::Quick,
                            Some("thorough") => Tier::Thorough,
                            _ => usage(),
                        };
                    }
                    "--seed" => {
                        i += 1;
                        seed = args
                            .get(i)
                            .and_then(|s| s.parse::<i64>().ok())
                            .map(|x| x as u64)
                            .unwrap_or_else(|| usage());
                    }
                    "--sub" => {
                        i += 1;
                        sub = args.get(i).cloned();
                    }
                    _ => usage(),
                }
                i += 1;
            }
            let ctx = make_ctx(tier, seed);
            let Some(prop) = props::property(&id, &ctx) else {
                eprintln!("vcheck: unknown property {id}");
                std::process::exit(2);
            };
            let out = run_property(&ctx, &prop, sub.as_deref());
            for l in &out.known_lines {
                println!("{l}");
            }
            for (f, path) in &out.violations {
                eprintln!("vcheck: {}/{} [{}]: {}", prop.id, f.sub, f.key, f.msg);
                println!("VIOLATION property={} replay={}", prop.id, path.display());
            }
            for m in &out.inconclusive {
                eprintln!("vcheck: inconclusive: {m}");
            }
            std::process::exit(if !out.violations.is_empty() {
                1
            } else if !out.inconclusive.is_empty() {
                2
            } else {
                0
            });
        }
        "replay" => {
            vcheck::props::warm::warm_process();
            if args.len() < 3 {
                usage();
            }
            // saved libFuzzer inputs: replays/<Cxx>-fuzz-<hash>.bin, re-executed without the fuzzer
            if args[2].ends_with(".bin") {
                let data = match std::fs::read(&args[2]) {
                    Ok(d) => d,
                    Err(e) => {
                        eprintln!("vcheck: cannot read {}: {e}", args[2]);
                        std::process::exit(2);
                    }
                };
                let name = std::path::Path::new(&args[2]).file_name().and_then(|s| s.to_str()).unwrap_or("").to_string();
                let id = name.split('-').next().unwrap_or("").to_string();
                let res = match id.as_str() {
                    "C02" => props::c02::fuzz_bytes(&data),
                    "C09" => props::c09::fuzz_bytes(&data),
                    "C11" => props::c11::fuzz_bytes(&data),
                    "C05" => props::c05::fuzz_bytes(&data),
                    "C08" => props::c08::fuzz_bytes(&data),
                    "C17" => props::c17::fuzz_bytes(&data),
                    _ => {
                        eprintln!("vcheck: no fuzz target for {name}");
                        std::process::exit(2);
                    }
                };
                match res {
                    Ok(()) => {
                        println!("replay {id}/fuzz: input passes");
                        std::process::exit(0);
                    }
                    Err(f) => {
                        eprintln!("vcheck: {id}/fuzz [{}]: {}", f.key, f.msg);
                        println!("VIOLATION property={id} replay={}", args[2]);
                        std::process::exit(1);
                    }
                }
            }
            let text = match std::fs::read_to_string(&args[2]) {
                Ok(t) => t,
                Err(e) => {
                    eprintln!("vcheck: cannot read {}: {e}", args[2]);
                    std::process::exit(2);
                }
            };
            let v: serde_json::Value = match serde_json::from_str(&text) {
                Ok(v) => v,
                Err(e) => {
                    eprintln!("vcheck: bad replay file: {e}");
                    std::process::exit(2);
                }
            };
            let id = v["property"].as_str().unwrap_or("").to_string();
            let subname = v["subcheck"].as_str().unwrap_or("").to_string();
            let ctx = make_ctx(Tier::Quick, v["seed"].as_u64().unwrap_or(0));
            let Some(prop) = props::property(&id, &ctx) else {
                eprintln!("vcheck: unknown property {id}");
                std::process::exit(2);
            };
            let Some(sub) = prop.subs.iter().find(|s| s.name() == subname) else {
                eprintln!("vcheck: unknown subcheck {id}/{subname}");
                std::process::exit(2);
            };
            match sub.replay(v["case"].clone()) {
                Err(e) => {
                    eprintln!("vcheck: {e}");
                    std::process::exit(2);
                }
                Ok(Ok(())) => {
                    println!("replay {id}/{subname}: case passes");
                    std::process::exit(0);
                }
                Ok(Err(f)) => {
                    eprintln!("vcheck: {id}/{subname} [{}]: {}", f.key, f.msg);
                    println!("VIOLATION property={id} replay={}", args[2]);
                    std::process::exit(1);
                }
            }
        }
        "child" => props::child_main(&args[2..]),
        "pin-golden" => {
            // pin time only: digests of the own expansion of the pinned tables
            let r = props::c06::pin_digests().and_then(|_| props::c07::pin_digests());
            if let Err(e) = r {
                eprintln!("vcheck: {e}");
                std::process::exit(2);
            }
            std::process::exit(0);
        }
        "selftest" => {
            let ok = props::selftest();
            std::process::exit(if ok { 0 } else { 2 });
        }
        _ => usage(),
    }
}
