//! One module per property (C01 … C20).

use crate::engine::{Ctx, Property};

pub mod c01;
pub mod c02;
pub mod c03;
pub mod c04;
pub mod c05;
pub mod c06;
pub mod c07;
pub mod c08;
pub mod c09;
pub mod c10;
pub mod c11;
pub mod c12;
pub mod c13;
pub mod child;
pub mod c14;
pub mod c15;
pub mod c16;
pub mod c17;
pub mod c18;
pub mod c19;
pub mod c20;
pub mod decgen;
pub mod impls;
pub mod realcodes;
pub mod warm;

pub fn property(id: &str, ctx: &Ctx) -> Option<Property> {
    let _ = ctx;
    Some(match id {
        "C01" => c01::property(),
        "C02" => c02::property(),
        "C03" => c03::property(),
        "C04" => c04::property(),
        "C05" => c05::property(),
        "C06" => c06::property(),
        "C07" => c07::property(),
        "C08" => c08::property(),
        "C09" => c09::property(),
        "C10" => c10::property(),
        "C11" => c11::property(),
        "C12" => c12::property(),
        "C13" => c13::property(),
        "C14" => c14::property(),
        "C15" => c15::property(),
        "C16" => c16::property(),
        "C18" => c18::property(),
        "C19" => c19::property(),
        "C20" => c20::property(),
        "C17" => c17::property(),
        _ => return None,
    })
}

pub fn child_main(args: &[String]) -> ! {
    match args.first().map(|s| s.as_str()) {
        Some("c13") => c13::child_main(),
        Some("c19") => c19::child_main(),
        _ => {
            eprintln!("vcheck child: unknown kind {args:?}");
            std::process::exit(2)
        }
    }
}

pub fn selftest() -> bool {
    let mut ok = true;
    // SHA-256 test vectors
    let v = crate::common::hex(&crate::common::sha256(b"abc"));
    if v != "ba7816bf8f01cfea414140de5dae2223b00361a396177a9cb410ff61f20015ad" {
        eprintln!("selftest: sha256(abc) wrong: {v}");
        ok = false;
    }
    let v = crate::common::hex(&crate::common::sha256(b""));
    if v != "e3b0c44298fc1c149afbf4c8996fb92427ae41e4649b934ca495991b7852b855" {
        eprintln!("selftest: sha256('') wrong: {v}");
        ok = false;
    }
    let long = vec![b'a'; 1_000_000];
    let v = crate::common::hex(&crate::common::sha256(&long));
    if v != "cdc76e5c9914fb9281a1c7e284d73e67f1809a48a497200e046d39ccc7112cd0" {
        eprintln!("selftest: sha256(a*1e6) wrong: {v}");
        ok = false;
    }
    if ok {
        eprintln!("selftest: ok");
    }
    ok
}
