//! The 36 documented decoder implementation names and the 24 arithmetic types,
//! listed independently of the factory under test.

use ldpc_toolbox::decoder::arithmetic::*;
use ldpc_toolbox::decoder::factory::{DecoderFactory, DecoderImplementation};
use ldpc_toolbox::decoder::{LdpcDecoder, flooding, horizontal_layered};
use ldpc_toolbox::sparse::SparseMatrix;

/// Invokes `$m!(Type1, Type2, …)` with the 24 arithmetic types.
#[macro_export]
macro_rules! with_arith_types {
    ($m:ident) => {
        $m!(
            Phif64,
            Phif32,
            Tanhf64,
            Tanhf32,
            Minstarapproxf64,
            Minstarapproxf32,
            Minstarapproxi8,
            Minstarapproxi8Jones,
            Minstarapproxi8PartialHardLimit,
            Minstarapproxi8JonesPartialHardLimit,
            Minstarapproxi8Deg1Clip,
            Minstarapproxi8JonesDeg1Clip,
            Minstarapproxi8PartialHardLimitDeg1Clip,
            Minstarapproxi8JonesPartialHardLimitDeg1Clip,
            Aminstarf64,
            Aminstarf32,
            Aminstari8,
            Aminstari8Jones,
            Aminstari8PartialHardLimit,
            Aminstari8JonesPartialHardLimit,
            Aminstari8Deg1Clip,
            Aminstari8JonesDeg1Clip,
            Aminstari8PartialHardLimitDeg1Clip,
            Aminstari8JonesPartialHardLimitDeg1Clip
        )
    };
}

/// The 36 names as documented (README / factory docs): every arithmetic with the
/// flooding schedule, and HL-prefixed names for the layered schedule, which is
/// offered for the float types and for the 8-bit types without Jones/Deg1Clip.
pub const NAMES: [&str; 36] = [
    "Phif64",
    "Phif32",
    "Tanhf64",
    "Tanhf32",
    "Minstarapproxf64",
    "Minstarapproxf32",
    "Minstarapproxi8",
    "Minstarapproxi8Jones",
    "Minstarapproxi8PartialHardLimit",
    "Minstarapproxi8JonesPartialHardLimit",
    "Minstarapproxi8Deg1Clip",
    "Minstarapproxi8JonesDeg1Clip",
    "Minstarapproxi8PartialHardLimitDeg1Clip",
    "Minstarapproxi8JonesPartialHardLimitDeg1Clip",
    "Aminstarf64",
    "Aminstarf32",
    "Aminstari8",
    "Aminstari8Jones",
    "Aminstari8PartialHardLimit",
    "Aminstari8JonesPartialHardLimit",
    "Aminstari8Deg1Clip",
    "Aminstari8JonesDeg1Clip",
    "Aminstari8PartialHardLimitDeg1Clip",
    "Aminstari8JonesPartialHardLimitDeg1Clip",
    "HLPhif64",
    "HLPhif32",
    "HLTanhf64",
    "HLTanhf32",
    "HLMinstarapproxf64",
    "HLMinstarapproxf32",
    "HLMinstarapproxi8",
    "HLMinstarapproxi8PartialHardLimit",
    "HLAminstarf64",
    "HLAminstarf32",
    "HLAminstari8",
    "HLAminstari8PartialHardLimit",
];

/// The built-in arithmetics have two public constructors, `new()` and `Default::default()`;
/// checks of the arithmetic rules draw one of them per case.
pub fn mk<A: Default>(new: fn() -> A, use_default: bool) -> A {
    if use_default { A::default() } else { new() }
}

/// History for an arithmetic object: a layered update of an unrelated row (twice, so that the stored
/// messages are not the defaults) before the rule under test is evaluated on the same object.
pub fn layered_warm<A: ldpc_toolbox::decoder::arithmetic::DecoderArithmetic>(a: &mut A, llrs: &[f64]) {
    use ldpc_toolbox::decoder::SentMessage;
    if llrs.len() < 2 {
        return;
    }
    let llrs = &llrs[..llrs.len().min(16)];
    let mut vars: Vec<A::VarLlr> = llrs.iter().map(|&x| a.llr_to_var_llr(a.input_llr_quantize(x))).collect();
    let mut msgs: Vec<SentMessage<A::CheckMessage>> = (0..llrs.len()).map(|i| SentMessage { dest: i, value: A::CheckMessage::default() }).collect();
    let _ = crate::engine::guarded(|| {
        a.update_check_messages_and_vars(&mut msgs, &mut vars);
        a.update_check_messages_and_vars(&mut msgs, &mut vars);
    });
}

/// History for an arithmetic object: the flooding check-node rule on an unrelated check.
pub fn flooding_warm<A: ldpc_toolbox::decoder::arithmetic::DecoderArithmetic>(a: &mut A, llrs: &[f64]) {
    use ldpc_toolbox::decoder::Message;
    if llrs.len() < 2 {
        return;
    }
    // (the check rule is quadratic in the degree for some arithmetics: a short check suffices)
    let llrs = &llrs[..llrs.len().min(12)];
    let msgs: Vec<Message<A::VarMessage>> = llrs.iter().enumerate().map(|(i, &x)| Message { source: 7 + 2 * i, value: a.llr_to_var_message(a.input_llr_quantize(x)) }).collect();
    let _ = crate::engine::guarded(|| a.send_check_messages(&msgs, |_| {}));
}

/// Build the decoder a name *states*: HL prefix = horizontal layered, otherwise
/// flooding; the remainder is the arithmetic type. Independent of the factory.
pub fn build_direct(name: &str, h: SparseMatrix) -> Option<Box<dyn LdpcDecoder>> {
    let (layered, ty) = match name.strip_prefix("HL") {
        Some(rest) => (true, rest),
        None => (false, name),
    };
    macro_rules! arms {
        ($($t:ident),*) => {
            $(
                if ty == stringify!($t) {
                    return Some(if layered {
                        Box::new(horizontal_layered::Decoder::new(h, <$t>::new()))
                    } else {
                        Box::new(flooding::Decoder::new(h, <$t>::new()))
                    });
                }
            )*
        };
    }
    with_arith_types!(arms);
    None
}

pub fn factory_variants() -> Vec<DecoderImplementation> {
    use clap::ValueEnum;
    DecoderImplementation::value_variants().to_vec()
}

pub fn build_factory(imp: &DecoderImplementation, h: SparseMatrix) -> Box<dyn LdpcDecoder> {
    imp.build_decoder(h)
}

pub fn is_8bit(name: &str) -> bool {
    name.contains("i8")
}
