//! C06 — DVB-S2 parity-check matrices conform to ETSI EN 302 307-1.

use crate::common::*;
use crate::engine::*;
use crate::ensure;
use ldpc_toolbox::codes::dvbs2::Code;
use ldpc_toolbox::encoder::Encoder;
use ldpc_toolbox::gf2::GF2;
use num_traits::{One, Zero};
use serde::{Deserialize, Serialize};

/// (name, n, k, high-degree column count, high degree) from Tables 5a/5b and the
/// degree distributions of the standard; all remaining information columns have degree 3.
pub const STANDARD: [(&str, usize, usize, usize, usize); 21] = [
    ("R1_4", 64800, 16200, 5400, 12),
    ("R1_3", 64800, 21600, 7200, 12),
    ("R2_5", 64800, 25920, 8640, 12),
    ("R1_2", 64800, 32400, 12960, 8),
    ("R3_5", 64800, 38880, 12960, 12),
    ("R2_3", 64800, 43200, 4320, 13),
    ("R3_4", 64800, 48600, 5400, 12),
    ("R4_5", 64800, 51840, 6480, 11),
    ("R5_6", 64800, 54000, 5400, 13),
    ("R8_9", 64800, 57600, 7200, 4),
    ("R9_10", 64800, 58320, 6480, 4),
    ("R1_4short", 16200, 3240, 1440, 12),
    ("R1_3short", 16200, 5400, 1800, 12),
    ("R2_5short", 16200, 6480, 2160, 12),
    ("R1_2short", 16200, 7200, 1800, 8),
    ("R3_5short", 16200, 9720, 3240, 12),
    ("R2_3short", 16200, 10800, 1080, 13),
    ("R3_4short", 16200, 11880, 360, 12),
    ("R4_5short", 16200, 12600, 0, 3),
    ("R5_6short", 16200, 13320, 360, 13),
    ("R8_9short", 16200, 14400, 1800, 4),
];

pub fn all_codes() -> Vec<(String, Code)> {
    enum_iterator::all::<Code>().map(|c| (format!("{c:?}"), c)).collect()
}

/// own implementation of section 5.3.2.1: sorted column lists of H
pub fn expand(n: usize, k: usize, table: &[Vec<usize>]) -> Result<Vec<Vec<usize>>, String> {
    let m = n - k;
    if m % 360 != 0 || k % 360 != 0 {
        return Err(format!("n-k = {m} or k = {k} not a multiple of 360"));
    }
    let q = m / 360;
    if table.len() != k / 360 {
        return Err(format!("table has {} rows, k/360 = {}", table.len(), k / 360));
    }
    let mut cols: Vec<Vec<usize>> = Vec::with_capacity(n);
    for j in 0..k {
        let (t, w) = (j / 360, j % 360);
        let mut c: Vec<usize> = table[t].iter().map(|x| (x + w * q) % m).collect();
        c.sort_unstable();
        cols.push(c);
    }
    // accumulator: parity bit i appears in check i and check i+1
    for i in 0..m {
        let mut c = vec![i];
        if i + 1 < m {
            c.push(i + 1);
        }
        cols.push(c);
    }
    Ok(cols)
}

pub fn golden_table(name: &str) -> Result<Vec<Vec<usize>>, String> {
    read_table(&golden_dir().join("dvbs2").join(format!("{name}.tbl")))
}

#[derive(Debug, Clone, Serialize, Deserialize)]
pub struct CodeCase {
    pub code: String,
    pub thorough: bool,
}

fn code_cases(t: Tier) -> Vec<CodeCase> {
    STANDARD.iter().map(|s| CodeCase { code: s.0.to_string(), thorough: t == Tier::Thorough }).collect()
}

fn lookup(name: &str) -> Result<(Code, (usize, usize, usize, usize)), Fail> {
    let code = all_codes().into_iter().find(|(n, _)| n == name).map(|x| x.1).ok_or_else(|| Fail::new("missing-code", format!("code identifier {name} is not offered by the library")))?;
    let s = STANDARD.iter().find(|s| s.0 == name).ok_or_else(|| Fail::new("harness", format!("{name} not in the harness table")))?;
    Ok((code, (s.1, s.2, s.3, s.4)))
}

fn check_structure(case: &CodeCase, p: &mut Probe) -> Check {
    let name = &case.code;
    let (code, (n, k, nhigh, dhigh)) = lookup(name)?;
    let h = guarded(|| code.h()).map_err(|e| Fail::new("panic", format!("{name}: h() panicked: {e}")))?;
    let m = n - k;
    ensure!(h.num_rows() == m && h.num_cols() == n, "dimensions", "{name}: matrix is {} x {}, the standard's (n, k) = ({n}, {k}) requires {m} x {n}", h.num_rows(), h.num_cols());
    let q = m / 360;
    ensure!(m % 360 == 0, "q", "{name}: n-k not a multiple of 360");
    let cols = sorted_columns(&h);
    // quasi-cyclic law inside every group of 360 information columns
    for g in 0..k / 360 {
        for j in 1..360 {
            let prev = &cols[360 * g + j - 1];
            let mut shifted: Vec<usize> = prev.iter().map(|x| (x + q) % m).collect();
            shifted.sort_unstable();
            ensure!(cols[360 * g + j] == shifted, "quasi-cyclic", "{name}: column {} is not column {} shifted down by q = {q} modulo {m}", 360 * g + j, 360 * g + j - 1);
        }
    }
    // degree profile
    let mut high = 0;
    for j in 0..k {
        let d = cols[j].len();
        if d == dhigh && nhigh > 0 && d != 3 {
            high += 1;
        } else {
            ensure!(d == 3, "degree-profile", "{name}: information column {j} has degree {d} (expected {dhigh} or 3)");
        }
    }
    ensure!(high == nhigh, "degree-profile", "{name}: {high} information columns of degree {dhigh}, the standard has {nhigh}");
    // dual-diagonal parity part
    for i in 0..m {
        let want: Vec<usize> = if i + 1 < m { vec![i, i + 1] } else { vec![i] };
        ensure!(cols[k + i] == want, "dual-diagonal", "{name}: parity column {i} has rows {:?}, expected {want:?}", cols[k + i]);
    }
    // no cycle of length 4
    if let Some((a, b, r)) = has_four_cycle(&h) {
        return Err(Fail::new("four-cycle", format!("{name}: columns {a} and {b} share two rows (one of them {r}): cycle of length 4")));
    }
    // pinned reference: own re-expansion of the pinned tables + digest
    let table = golden_table(name).map_err(|e| Fail::new("golden-missing", e))?;
    let own = expand(n, k, &table).map_err(|e| Fail::new("golden-bad", format!("{name}: {e}")))?;
    ensure!(own.len() == cols.len(), "reference", "{name}: reference has {} columns", own.len());
    for j in 0..n {
        ensure!(own[j] == cols[j], "reference", "{name}: column {j} = {:?} differs from the pinned reference {:?}", cols[j], own[j]);
    }
    let digests = read_digests(&golden_dir().join("dvbs2").join("DIGESTS"));
    let want = digests.get(name).ok_or_else(|| Fail::new("golden-missing", format!("{name}: no pinned digest")))?;
    let got = columns_digest(m, &cols);
    ensure!(&got == want, "reference-digest", "{name}: edge-list digest {got} differs from the pinned {want}");
    // documented girth of the normal rate-1/2 code (own bounded search; there is no 4-cycle, so 6 is the minimum possible)
    if name == "R1_2" || case.thorough {
        let g = bounded_girth(&adjacency(&h), 6);
        if name == "R1_2" {
            ensure!(g == Some(6), "girth", "{name}: own girth search gives {g:?}, documented girth is 6");
        } else {
            ensure!(g.is_none_or(|x| x >= 6), "girth", "{name}: girth {g:?} below 6");
        }
        p.class("own-girth-computed");
    }
    if name == "R1_2" {
        // the thread that asks has asked before: two other matrices' girths first (a short-frame code and a
        // small one), so that whatever a girth search keeps per thread is no longer in its initial state
        let _ = guarded(|| ldpc_toolbox::codes::dvbs2::Code::R1_4short.h().girth());
        let _ = guarded(|| ldpc_toolbox::codes::dvbs2::Code::R8_9short.h().girth_with_max(8));
        let g = guarded(|| h.girth()).map_err(|e| Fail::new("panic", format!("{name}: girth() panicked (after girth searches on two short-frame codes on the same thread): {e}")))?;
        ensure!(g == Some(6), "girth-library", "{name}: SparseMatrix::girth() = {g:?}, documented 6 (after girth searches on two short-frame codes on the same thread)");
        // the bounded query: the girth is reported under every bound that admits it, and only then
        for (b, want) in [(6usize, Some(6usize)), (8, Some(6)), (4, None)] {
            let gb = guarded(|| h.girth_with_max(b)).map_err(|e| Fail::new("panic", format!("{name}: girth_with_max({b}) panicked: {e}")))?;
            ensure!(gb == want, "girth-library", "{name}: SparseMatrix::girth_with_max({b}) = {gb:?}; the documented girth is 6, so the answer is {want:?}");
        }
    }
    p.nontrivial();
    p.inner += n as u64;
    Ok(())
}

#[derive(Debug, Clone, Serialize, Deserialize)]
pub struct EncCase {
    pub messages: usize,
    pub seed: u64,
}

fn enc_cases(t: Tier) -> Vec<EncCase> {
    vec![EncCase { messages: t.pick(8, 200), seed: GLOBAL_SEED.load(std::sync::atomic::Ordering::Relaxed) }]
}


/// all 21 codes in ascending order of n-k, stopping at the first failure, so that a
/// regression to dense elimination is reported on the smallest matrix
fn check_encoder(case: &EncCase, p: &mut Probe) -> Check {
    let mut order: Vec<&(&str, usize, usize, usize, usize)> = STANDARD.iter().collect();
    order.sort_by_key(|s| s.1 - s.2);
    // the thread that builds the encoders has built encoders before: three small matrices whose parity
    // part is nearly, but not, a staircase (ones at legal staircase positions followed by one that is not;
    // an identity; a staircase with a missing step), whatever the constructor makes of them
    for tail in [[[1u8, 0, 1], [1, 1, 0], [0, 1, 1]], [[1, 0, 0], [0, 1, 0], [0, 0, 1]], [[1, 0, 0], [0, 1, 0], [0, 1, 1]]] {
        let mut small = ldpc_toolbox::sparse::SparseMatrix::new(3, 6);
        for i in 0..3 {
            small.insert(i, i);
            small.insert(i, (i + 1) % 3);
            for (j, &b) in tail[i].iter().enumerate() {
                if b == 1 {
                    small.insert(i, 3 + j);
                }
            }
        }
        let _ = guarded(|| Encoder::from_h(&small));
    }
    for s in order {
        let name = s.0;
        let (code, (n, k, _, _)) = lookup(name)?;
        let h = code.h();
        if h.num_cols() != n || h.num_rows() != n - k {
            return Err(Fail::new("dimensions", format!("{name}: matrix is {} x {}", h.num_rows(), h.num_cols())));
        }
        let t0 = std::time::Instant::now();
        let h_again = code.h();
        let t_build = t0.elapsed();
        drop(h_again);
        let t1 = std::time::Instant::now();
        let enc = guarded(|| Encoder::from_h(&h)).map_err(|e| Fail::new("panic", format!("{name}: Encoder::from_h panicked: {e}")))?;
        let t_enc = t1.elapsed();
        let enc = enc.map_err(|e| Fail::new("encoder-rejects", format!("{name}: Encoder::from_h failed: {e}")))?;
        // "in linear time, without dense elimination": recognised through the Debug rendering of the
        // encoder (variant name Staircase). Should a refactoring rename the variant, the rendering says
        // nothing; the verdict then rests on cost: building the encoder of a staircase matrix costs
        // about as much as building the matrix itself (measured: at most 1.2 times, all 21 codes), dense
        // elimination 180 times as much on the smallest matrix (R8_9short, 1800 x 16200) and more on
        // every other one, so a factor of 15 separates the two with a margin of 12 either way.
        let dbg = format!("{enc:?}");
        p.metric("encoder_build_cost_over_matrix_build_cost", t_enc.as_secs_f64() / t_build.as_secs_f64().max(1e-4));
        if !dbg.contains("Staircase") {
            let ratio = t_enc.as_secs_f64() / t_build.as_secs_f64().max(1e-3);
            p.class("staircase-path-judged-by-cost");
            ensure!(ratio <= 15.0, "not-linear-time", "{name}: the encoder did not take the staircase (linear-time) path: {} and building it took {:.2} s, {ratio:.0} times the construction of the matrix", &dbg[..dbg.len().min(60)], t_enc.as_secs_f64());
        }
        let rows = sorted_rows(&h);
        let mut sd = splitmix(case.seed ^ hash_str(name));
        for t in 0..case.messages {
            let msg: Vec<u8> = (0..k)
                .map(|_| {
                    sd = splitmix(sd);
                    if t == 0 { 1 } else if t == 1 { 0 } else { (sd & 1) as u8 }
                })
                .collect();
            // the message reaches the encoder as an owned array or as one of five kinds of view (reversed,
            // strided, offset), message t in layout t mod 6
            let gmsg: Vec<GF2> = msg.iter().map(|&b| if b == 1 { GF2::one() } else { GF2::zero() }).collect();
            let lay = (t % LAYOUTS as usize) as u8;
            let cw = guarded(|| with_layout(&gmsg, GF2::one(), lay, |v| enc.encode(&v))).map_err(|e| Fail::new("panic", format!("{name}: encode panicked (message layout {}): {e}", layout_name(lay))))?;
            let cw: Vec<u8> = cw.iter().map(|x| u8::from(x.is_one())).collect();
            ensure!(cw.len() == n && cw[..k] == msg[..], "not-systematic", "{name}: codeword does not start with the message (message layout {})", layout_name(lay));
            ensure!(syndrome_rows_ok(&rows, &cw), "not-codeword", "{name}: encoded word violates a parity check (message layout {})", layout_name(lay));
            p.inner += 1;
        }
    }
    p.nontrivial();
    Ok(())
}

/// many threads building different short codes at the same time, each in its own order: every
/// matrix built must have the pinned digest
fn concurrent_cases(t: Tier) -> Vec<EncCase> {
    (0..t.pick(16u64, 64)).map(|w| EncCase { messages: 0, seed: w }).collect()
}

/// the ten short codes and two normal ones, each built and handed to the encoder inside a rayon
/// pool of a single thread (a one-CPU container, RAYON_NUM_THREADS=1)
fn single_thread_cases(_t: Tier) -> Vec<EncCase> {
    STANDARD.iter().enumerate().filter(|(_, s)| s.1 == 16200 || s.0 == "R1_2" || s.0 == "R9_10").flat_map(|(i, _)| [1u64, 3].map(|t| EncCase { messages: i, seed: t })).collect()
}

fn check_single_thread(case: &EncCase, p: &mut Probe) -> Check {
    let digests = read_digests(&golden_dir().join("dvbs2").join("DIGESTS"));
    // (the case's `messages` field carries the index of the code)
    let s = &STANDARD[case.messages % STANDARD.len()];
    let (code, (n, k, _, _)) = lookup(s.0)?;
    // pools of one thread and of three (a worker count that divides no power of two)
    let threads = if case.seed == 3 { 3 } else { 1 };
    let pool = rayon::ThreadPoolBuilder::new().num_threads(threads).build().map_err(|e| Fail::new(INCONCLUSIVE, format!("cannot build a rayon pool: {e}")))?;
    let h = guarded(|| pool.install(|| code.h())).map_err(|e| Fail::new("panic", format!("{}: h() panicked inside a rayon pool of {threads} thread(s): {e}", s.0)))?;
    ensure!(h.num_cols() == n && h.num_rows() == n - k, "dimensions", "{}: matrix is {} x {}", s.0, h.num_rows(), h.num_cols());
    let got = columns_digest(n - k, &sorted_columns(&h));
    let want = digests.get(s.0).ok_or_else(|| Fail::new("golden-missing", format!("{}: no pinned digest", s.0)))?;
    ensure!(&got == want, "single-thread-build", "{}: the matrix built inside a rayon pool of {threads} thread(s) differs from the pinned reference", s.0);
    let enc = guarded(|| pool.install(|| ldpc_toolbox::encoder::Encoder::from_h(&h))).map_err(|e| Fail::new("panic", format!("{}: Encoder::from_h panicked inside a rayon pool of {threads} thread(s): {e}", s.0)))?;
    ensure!(enc.is_ok(), "encoder-rejects", "{}: Encoder::from_h failed inside a rayon pool of {threads} thread(s): {:?}", s.0, enc.err());
    p.inner += 1;
    p.nontrivial();
    Ok(())
}

fn check_concurrent(case: &EncCase, p: &mut Probe) -> Check {
    let digests = read_digests(&golden_dir().join("dvbs2").join("DIGESTS"));
    let short: Vec<_> = STANDARD.iter().filter(|s| s.1 == 16200).collect();
    let mut sd = splitmix(case.seed ^ 0xd5b2);
    for round in 0..20 {
        sd = splitmix(sd);
        let s = short[(sd % short.len() as u64) as usize];
        let (code, (n, k, _, _)) = lookup(s.0)?;
        let h = guarded(|| code.h()).map_err(|e| Fail::new("panic", format!("{}: h() panicked while other threads were building other codes (round {round}): {e}", s.0)))?;
        ensure!(h.num_cols() == n && h.num_rows() == n - k, "dimensions", "{}: matrix is {} x {}", s.0, h.num_rows(), h.num_cols());
        let got = columns_digest(n - k, &sorted_columns(&h));
        let want = digests.get(s.0).ok_or_else(|| Fail::new("golden-missing", format!("{}: no pinned digest", s.0)))?;
        ensure!(&got == want, "concurrent-build", "{}: the matrix built in round {round}, while other threads were building other codes, differs from the pinned reference", s.0);
        p.inner += 1;
    }
    p.nontrivial();
    Ok(())
}

/// writes golden/dvbs2/DIGESTS from the own expansion of the pinned tables (pin time only)
pub fn pin_digests() -> Result<(), String> {
    let mut out = String::new();
    for s in STANDARD.iter() {
        let table = golden_table(s.0)?;
        let cols = expand(s.1, s.2, &table)?;
        out.push_str(&format!("{} {}\n", s.0, columns_digest(s.1 - s.2, &cols)));
    }
    std::fs::write(golden_dir().join("dvbs2").join("DIGESTS"), out).map_err(|e| e.to_string())
}

pub fn property() -> Property {
    Property {
        id: "C06",
        subs: vec![
            Box::new(EnumSub {
                name: "structure",
                rule: "exhaustive over the 21 code identifiers: dimensions against the harness's own copy of Tables 5a/5b; q = (n-k)/360; quasi-cyclic law for every group and every j in 1..360 (column = previous column shifted by q mod n-k, as sets); column-degree profile of the standard; exact dual-diagonal parity part; own 4-cycle search (row pairs sharing two columns); own bounded girth = 6 for normal 1/2 (all codes in thorough) and SparseMatrix::girth() = 6, girth_with_max(b) = 6 for b = 6, 8 and None for b = 4 on normal 1/2 (asked on a thread that has just searched the girth of two short-frame codes); equality, column by column, with an own re-expansion (section 5.3.2.1) of the pinned address tables and equality of the SHA-256 of the canonical edge list with the pinned digest; inner = columns examined",
                cases: code_cases,
                check: check_structure,
                exhaustive: true,
            }),
            Box::new(EnumSub {
                name: "encoder",
                rule: "on a thread that has just built encoders for three small matrices whose parity part is nearly a staircase: all 21 codes in ascending order of n-k: Encoder::from_h succeeds and its Debug rendering shows the staircase variant (linear time, no dense elimination; if a renamed variant hides it, building the encoder must cost less than 15 times the construction of the matrix); 8 (thorough 200) messages per code, handed over in six memory layouts in turn (all-ones, all-zero + pseudo-random from VERIF_SEED): systematic prefix and own H c = 0; inner = encoded messages",
                cases: enc_cases,
                check: check_encoder,
                exhaustive: true,
            }),
            Box::new(EnumSub {
                name: "concurrent-builds",
                rule: "16 (thorough 64) workers, each building 20 times one of the ten short codes in its own pseudo-random order, all at the same time: dimensions and pinned digest of every matrix built; inner = matrices built",
                cases: concurrent_cases,
                check: check_concurrent,
                exhaustive: false,
            }),
            Box::new(EnumSub {
                name: "single-thread-pool",
                rule: "the ten short codes and normal 1/2 and 9/10, each built and handed to Encoder::from_h inside a rayon pool of one thread (a one-CPU container) and of three threads: the calls return (a call that has not returned after 60 s is reported), the matrix has the pinned digest, the encoder accepts it",
                cases: single_thread_cases,
                check: check_single_thread,
                exhaustive: false,
            }),
        ],
        assumptions: vec![
            "the (n, k) pairs and degree profiles are the harness's own transcription of ETSI EN 302 307-1 Tables 5a/5b; the individual address-table entries are pinned from the tree at pin time (regression oracle, not a proof of conformance of each entry to the paper standard)".into(),
            "the staircase path is recognised through the Debug rendering of the encoder (variant name); if the rendering does not mention it, by cost relative to constructing the matrix (threshold 15; measured 1.2 for the staircase path, >= 180 for dense elimination)".into(),
        ],
    }
}
