//! Process warm-up: before any property is checked (or a saved case replayed), the other
//! subsystems of the library are exercised once in this process: a short BER simulation with a real
//! decoder, an encoder, the code tables, a pseudorandom construction, the parser, a girth search.
//! State that one subsystem leaves behind in the process (a global flag, a cache, a thread-local)
//! is thereby in place when the checks start, as it is in a long-running application. Whatever the
//! warm-up calls return, panic with, or fail to return is none of the running check's business: panics
//! are swallowed, and the warm-up runs on its own thread, which is abandoned after 20 s.

use ldpc_toolbox::decoder::factory::DecoderImplementation;
use ldpc_toolbox::simulation::ber::BerTest;
use ldpc_toolbox::simulation::factory::Ber;
use ldpc_toolbox::simulation::modulation::{Bpsk, Psk8};
use ldpc_toolbox::sparse::SparseMatrix;
use std::sync::Once;
use std::time::Duration;

static WARM: Once = Once::new();

fn small_code() -> SparseMatrix {
    // 6 x 12 staircase code with a weight-3 message part
    let mut h = SparseMatrix::new(6, 12);
    for j in 0..6 {
        for t in [0usize, 1, 3] {
            h.insert((j + t) % 6, j);
        }
    }
    h.insert(0, 6);
    for i in 1..6 {
        h.insert(i, 6 + i);
        h.insert(i, 5 + i);
    }
    h
}

fn body() {
    let quiet = |f: &mut dyn FnMut()| {
        let _ = std::panic::catch_unwind(std::panic::AssertUnwindSafe(f));
    };
    quiet(&mut || {
        // two short simulations at a low Eb/N0 (frame errors arrive at once), both modulations
        let imp: DecoderImplementation = "Phif64".parse().unwrap();
        if let Ok(t) = BerTest::<Bpsk, _>::new(small_code(), imp, None, None, 3, 10, &[-2.0, 0.0], None, 0) {
            let _ = t.run();
        }
        let imp: DecoderImplementation = "HLAminstari8".parse().unwrap();
        if let Ok(t) = BerTest::<Psk8, _>::new(small_code(), imp, Some(&[true, true, true, false]), Some(3), 2, 5, &[1.0], None, 1) {
            let _ = t.run();
        }
    });
    quiet(&mut || {
        let h = small_code();
        let _ = ldpc_toolbox::encoder::Encoder::from_h(&h);
        let _ = SparseMatrix::from_alist(&h.alist());
        let _ = h.girth();
        let _ = ldpc_toolbox::systematic::parity_to_systematic(&h);
    });
    quiet(&mut || {
        let _ = ldpc_toolbox::codes::dvbs2::Code::R1_4short.h();
        let conf = ldpc_toolbox::mackay_neal::Config { nrows: 6, ncols: 12, wr: 6, wc: 3, backtrack_cols: 0, backtrack_trials: 0, min_girth: Some(4), girth_trials: 2, fill_policy: ldpc_toolbox::mackay_neal::FillPolicy::Uniform };
        let _ = conf.run(1);
    });
}

pub fn warm_process() {
    WARM.call_once(|| {
        let (tx, rx) = std::sync::mpsc::channel();
        let _ = std::thread::Builder::new().name("warm-up".into()).spawn(move || {
            body();
            let _ = tx.send(());
        });
        if rx.recv_timeout(Duration::from_secs(20)).is_err() {
            eprintln!("vcheck: process warm-up did not finish within 20 s (its thread is left behind)");
        }
    });
}
