//! Process warm-up: before any property is checked (or a saved case replayed), the other
//! subsystems of the library are exercised once in this process: a short BER simulation with a real
//! decoder, an encoder, the code tables, a pseudorandom construction, the parser, a girth search,
//! and a handful of callers' mistakes (a matrix with more rows than columns handed to the encoder,
//! block lengths that do not divide, a frame of the wrong length), whose panics are caught.
//! State that one subsystem leaves behind in the process (a global flag, a cache, a thread-local)
//! is thereby in place when the checks start, as it is in a long-running application. Whatever the
//! warm-up calls return, panic with, or fail to return is none of the running check's business: panics
//! are swallowed, and the warm-up runs on its own thread, which is abandoned after 20 s.

use ldpc_toolbox::decoder::factory::DecoderImplementation;
use ldpc_toolbox::simulation::ber::BerTest;
use ldpc_toolbox::simulation::modulation::{Bpsk, Psk8};
use ldpc_toolbox::sparse::SparseMatrix;
use std::sync::Once;
use std::time::Duration;

static WARM: Once = Once::new();

fn small_code() -> SparseMatrix {
    // 6 x 12 staircase code with a weight-3 message part
    let mut h = SparseMatrix::new(6, 12);
    for j in 0..6 {
        for t in [0usize, 1, 3] {
            h.insert((j + t) % 6, j);
        }
    }
    h.insert(0, 6);
    for i in 1..6 {
        h.insert(i, 6 + i);
        h.insert(i, 5 + i);
    }
    h
}

fn body() {
    let quiet = |f: &mut dyn FnMut()| {
        let _ = std::panic::catch_unwind(std::panic::AssertUnwindSafe(f));
    };
    quiet(&mut || {
        // two short simulations at a low Eb/N0 (frame errors arrive at once), both modulations
        let imp: DecoderImplementation = "Phif64".parse().unwrap();
        if let Ok(t) = BerTest::<Bpsk, _>::new(small_code(), imp, None, None, 3, 10, &[-2.0, 0.0], None, 0) {
            let _ = t.run();
        }
        let imp: DecoderImplementation = "HLAminstari8".parse().unwrap();
        if let Ok(t) = BerTest::<Psk8, _>::new(small_code(), imp, Some(&[true, true, true, false]), Some(3), 2, 5, &[1.0], None, 1) {
            let _ = t.run();
        }
    });
    quiet(&mut || {
        let h = small_code();
        let _ = ldpc_toolbox::encoder::Encoder::from_h(&h);
        let _ = SparseMatrix::from_alist(&h.alist());
        let _ = h.girth();
        let _ = ldpc_toolbox::systematic::parity_to_systematic(&h);
    });
    // callers' mistakes, each on its own (documented panics or errors; whatever happens is swallowed):
    // a process in which some earlier call failed must serve the later, well-formed calls all the same
    quiet(&mut || {
        let mut tall = SparseMatrix::new(5, 4);
        for i in 0..4 {
            tall.insert(i, i);
            tall.insert(i + 1, i);
        }
        let _ = ldpc_toolbox::encoder::Encoder::from_h(&tall);
    });
    quiet(&mut || {
        let il = ldpc_toolbox::simulation::interleaving::Interleaver::new(3, false);
        let _ = il.interleave(&ndarray::Array1::from_vec(vec![1u8, 2, 3, 4]));
    });
    quiet(&mut || {
        let il = ldpc_toolbox::simulation::interleaving::Interleaver::new(4, true);
        let _ = il.deinterleave(&[1.0f64, 2.0, 3.0]);
    });
    quiet(&mut || {
        use ldpc_toolbox::simulation::modulation::Modulator;
        let m = ldpc_toolbox::simulation::modulation::Psk8Modulator::new();
        let bits = ndarray::Array1::from_vec(vec![ldpc_toolbox::gf2::GF2::default(); 4]);
        let _ = m.modulate(&bits);
    });
    quiet(&mut || {
        let pu = ldpc_toolbox::simulation::puncturing::Puncturer::new(&[true, false, true]);
        let _ = pu.puncture(&ndarray::Array1::from_vec(vec![1u8, 2, 3, 4]));
        let _ = pu.depuncture(&[1.0f64, 2.0, 3.0]);
    });
    quiet(&mut || {
        let _ = SparseMatrix::from_alist("3 2\n1 1\n9 9 9\n");
        let _ = "NoSuchDecoder".parse::<DecoderImplementation>();
        let h = small_code();
        let _ = ldpc_toolbox::systematic::parity_to_systematic(&SparseMatrix::new(3, 2));
        let imp: DecoderImplementation = "Minstarapproxi8".parse().unwrap();
        use ldpc_toolbox::decoder::factory::DecoderFactory;
        let mut d = imp.build_decoder(h);
        let _ = d.decode(&[1.0, -1.0], 3);
    });
    quiet(&mut || {
        let _ = ldpc_toolbox::codes::dvbs2::Code::R1_4short.h();
        let conf = ldpc_toolbox::mackay_neal::Config { nrows: 6, ncols: 12, wr: 6, wc: 3, backtrack_cols: 0, backtrack_trials: 0, min_girth: Some(4), girth_trials: 2, fill_policy: ldpc_toolbox::mackay_neal::FillPolicy::Uniform };
        let _ = conf.run(1);
    });
}

pub fn warm_process() {
    WARM.call_once(|| {
        let (tx, rx) = std::sync::mpsc::channel();
        // the mistakes made on purpose panic: keep them off stderr
        let prev = std::panic::take_hook();
        std::panic::set_hook(Box::new(|_| {}));
        let _ = std::thread::Builder::new().name("warm-up".into()).spawn(move || {
            body();
            let _ = tx.send(());
        });
        let finished = rx.recv_timeout(Duration::from_secs(20)).is_ok();
        std::panic::set_hook(prev);
        if !finished {
            eprintln!("vcheck: process warm-up did not finish within 20 s (its thread is left behind)");
        }
    });
}
