//! C18 — each decoder implementation name builds the arithmetic and schedule it names.

use super::decgen::*;
use super::impls::*;
use crate::common::*;
use crate::engine::*;
use crate::ensure;
use clap::ValueEnum;
use ldpc_toolbox::decoder::factory::DecoderImplementation;
use proptest::prelude::*;
use serde::{Deserialize, Serialize};
use std::collections::BTreeSet;
use std::sync::atomic::{AtomicU64, Ordering};

// ---------------------------------------------------------------------------
// names

#[derive(Debug, Clone, Serialize, Deserialize)]
pub enum NameCase {
    /// the set of offered variants is exactly the documented 36 names
    Set,
    Name(String),
}

fn name_cases(_t: Tier) -> Vec<NameCase> {
    let mut v = vec![NameCase::Set];
    v.extend(NAMES.iter().map(|n| NameCase::Name(n.to_string())));
    v
}

fn check_name(case: &NameCase, p: &mut Probe) -> Check {
    p.nontrivial();
    match case {
        NameCase::Set => {
            let variants = factory_variants();
            ensure!(variants.len() == 36, "variant-count", "value_variants() offers {} implementations, documented are 36", variants.len());
            let shown: BTreeSet<String> = variants.iter().map(|v| v.to_string()).collect();
            let want: BTreeSet<String> = NAMES.iter().map(|s| s.to_string()).collect();
            ensure!(shown == want, "variant-set", "offered names differ from the documented ones: only offered {:?}, only documented {:?}", shown.difference(&want).collect::<Vec<_>>(), want.difference(&shown).collect::<Vec<_>>());
            let possible: BTreeSet<String> = variants.iter().filter_map(|v| v.to_possible_value().map(|pv| pv.get_name().to_string())).collect();
            ensure!(possible == want, "possible-values", "command-line value list differs from the documented names: {:?}", possible.symmetric_difference(&want).collect::<Vec<_>>());
        }
        NameCase::Name(name) => {
            let parsed = name.parse::<DecoderImplementation>().map_err(|e| Fail::new("from_str", format!("{name}: from_str failed: {e}")))?;
            ensure!(parsed.to_string() == *name, "display", "{name}: parses but prints back as {}", parsed);
            let pv = parsed.to_possible_value().ok_or_else(|| Fail::new("possible-value", format!("{name}: no possible value")))?;
            ensure!(pv.get_name() == name, "possible-value", "{name}: command-line value list offers it as {:?}", pv.get_name());
            let via_clap = <DecoderImplementation as ValueEnum>::from_str(name, false).map_err(|e| Fail::new("clap-from_str", format!("{name}: ValueEnum::from_str failed: {e}")))?;
            ensure!(via_clap == parsed, "clap-from_str", "{name}: ValueEnum::from_str gives {via_clap}, FromStr gives {parsed}");
            let n_match = factory_variants().iter().filter(|v| v.to_string() == *name).count();
            ensure!(n_match == 1, "one-to-one", "{name}: {n_match} variants print as this name");
            ensure!(build_direct(name, Mat::new(1, 2).to_sparse()).is_some(), "harness", "{name}: harness cannot derive arithmetic/schedule from the spelling");
        }
    }
    Ok(())
}

// ---------------------------------------------------------------------------
// differential: factory-built vs directly built

static SEP: [AtomicU64; 36] = [const { AtomicU64::new(0) }; 36];

fn strategy(_t: Tier) -> BoxedStrategy<DecCase> {
    decoder_matrix(10, 14)
        .prop_flat_map(|h| {
            let n = h.cols;
            let hh = h.clone();
            let strong = (any::<u64>(), proptest::collection::vec(9.0f64..16.2, n), proptest::collection::vec(any::<u16>(), 0..=3)).prop_map(move |(mask, mags, flips)| {
                let c = codeword_of(&hh, mask);
                let mut v: Vec<f64> = c.iter().zip(&mags).map(|(&b, &m)| if b == 1 { -m } else { m }).collect();
                for f in flips {
                    let i = idx(f, v.len());
                    v[i] = -v[i];
                }
                v
            });
            let wide = proptest::collection::vec(prop_oneof![-20.0f64..20.0, -4.0f64..4.0], n);
            let llrs = prop_oneof![3 => llr_vector(&h), 2 => strong, 2 => wide];
            let limit = prop_oneof![Just(1usize), Just(2), Just(3), Just(5), Just(10), Just(0)];
            (Just(h), llrs, limit)
        })
        .prop_map(|(h, llrs, limit)| DecCase { h, llrs: llrs.into_iter().map(Fx).collect(), limit })
        .boxed()
}

/// a matrix of the same shape and the same row weights that differs slightly from `m`:
/// 0 = two entries of one row moved towards each other (column-index sum of the row unchanged),
/// 1 = first and last column exchanged, 2 = rows in reverse order, 3 = one entry moved to the next free column
fn perturb(m: &Mat, kind: usize) -> Option<Mat> {
    let mut rows = m.row_lists();
    for r in rows.iter_mut() {
        r.sort_unstable();
    }
    match kind % 4 {
        0 => {
            for r in rows.iter_mut() {
                for i in 0..r.len() {
                    for j in i + 1..r.len() {
                        let (a, b) = (r[i], r[j]);
                        if b >= a + 3 && !r.contains(&(a + 1)) && !r.contains(&(b - 1)) {
                            r[i] = a + 1;
                            r[j] = b - 1;
                            let out = Mat::from_rows(m.rows, m.cols, &rows);
                            return Some(out);
                        }
                    }
                }
            }
            None
        }
        1 => {
            let last = m.cols - 1;
            for r in rows.iter_mut() {
                for c in r.iter_mut() {
                    *c = if *c == 0 { last } else if *c == last { 0 } else { *c };
                }
            }
            Some(Mat::from_rows(m.rows, m.cols, &rows))
        }
        2 => {
            rows.reverse();
            Some(Mat::from_rows(m.rows, m.cols, &rows))
        }
        _ => {
            for r in rows.iter_mut() {
                if let Some(i) = (0..r.len()).find(|&i| r[i] + 1 < m.cols && !r.contains(&(r[i] + 1))) {
                    r[i] += 1;
                    return Some(Mat::from_rows(m.rows, m.cols, &rows));
                }
            }
            None
        }
    }
    .filter(|h2| h2.set() != m.set())
}

fn check_diff(case: &DecCase, p: &mut Probe) -> Check {
    let llrs = fx_vec(&case.llrs);
    let hs = case.h.to_sparse();
    let mut direct_out = Vec::with_capacity(36);
    // consecutive builds: for a quarter of the names the factory is asked, right after building the
    // decoder for H, for the same name on a slightly different matrix of the same shape and row
    // weights; that second decoder must be the decoder of the second matrix
    let h2 = perturb(&case.h, case.h.ones.len() + case.limit);
    let llrs2: Option<Vec<f64>> = h2.as_ref().map(|h2| {
        let c = codeword_of(h2, case.h.ones.len() as u64 * 0x9e37 + 5);
        c.iter().zip(&llrs).map(|(&b, &l)| {
            let m = if l.is_finite() { l.abs().min(20.0) + 2.0 } else { 9.0 };
            if b == 1 { -m } else { m }
        }).collect()
    });
    for (ni, name) in NAMES.iter().enumerate() {
        if let (Some(h2), Some(l2), true) = (&h2, &llrs2, (ni + case.h.ones.len()) % 4 == 0) {
            let imp = name.parse::<DecoderImplementation>().map_err(|e| Fail::new("from_str", format!("{name}: {e}")))?;
            let h2s = h2.to_sparse();
            let _first = build_factory(&imp, hs.clone());
            let mut a2 = build_factory(&imp, h2s.clone());
            let mut b2 = build_direct(name, h2s).unwrap();
            for (which, v) in [("a noisy codeword of the second matrix", l2), ("the frame of the case", &llrs)] {
                let lim = case.limit.max(1);
                let ra = guarded(|| a2.decode(v, lim)).map_err(|e| Fail::new("panic", format!("{name}: factory decoder (second build) panicked: {e}")))?;
                let rb = guarded(|| b2.decode(v, lim)).map_err(|e| Fail::new("panic", format!("{name}: direct decoder panicked: {e}")))?;
                if ra != rb {
                    return Err(Fail::new("factory-mismatch-second-build", format!("{name}: built by the factory right after a decoder of the same name for another matrix of the same shape ({:?} then {:?}), the decoder returns {ra:?} on {which}, the generic decoder for the second matrix returns {rb:?}", case.h.ones, h2.ones)));
                }
            }
            p.class("second-build-of-a-name-on-a-similar-matrix");
            p.inner += 1;
        }
    }
    for name in NAMES {
        let imp = name.parse::<DecoderImplementation>().map_err(|e| Fail::new("from_str", format!("{name}: {e}")))?;
        let mut a = build_factory(&imp, hs.clone());
        let mut b = build_direct(name, hs.clone()).unwrap();
        let ra = guarded(|| a.decode(&llrs, case.limit)).map_err(|e| Fail::new("panic", format!("{name}: factory decoder panicked: {e}")))?;
        let rb = guarded(|| b.decode(&llrs, case.limit)).map_err(|e| Fail::new("panic", format!("{name}: direct decoder panicked: {e}")))?;
        p.inner += 1;
        if ra != rb {
            return Err(Fail::new("factory-mismatch", format!("{name}: factory-built decoder returns {ra:?}, the generic decoder built directly with the named arithmetic and schedule returns {rb:?}")));
        }
        // a second call on the same two objects under a larger limit (a third of the names per case)
        if (direct_out.len() + case.h.ones.len()) % 3 == 1 {
            let lim2 = case.limit * 4 + 7;
            let ra2 = guarded(|| a.decode(&llrs, lim2)).map_err(|e| Fail::new("panic", format!("{name}: factory decoder panicked on its second call (limit {lim2} after {}): {e}", case.limit)))?;
            let rb2 = guarded(|| b.decode(&llrs, lim2)).map_err(|e| Fail::new("panic", format!("{name}: direct decoder panicked on its second call: {e}")))?;
            if ra2 != rb2 {
                return Err(Fail::new("factory-mismatch-second-call", format!("{name}: second call (limit {lim2} after {}): factory-built decoder returns {ra2:?}, the generic decoder returns {rb2:?}", case.limit)));
            }
            p.class("second-call-with-a-larger-limit");
        }
        // "no limit": a frame the direct decoder converges on is decoded again by fresh decoders of both
        // kinds under an iteration limit beyond the i32 / u32 range
        if rb.is_ok() && (direct_out.len() + case.h.ones.len()) % 5 == 0 {
            let huge = [usize::MAX, 1usize << 32, i32::MAX as usize + 1, u32::MAX as usize][(case.h.ones.len() + case.limit) % 4];
            let mut a = build_factory(&imp, hs.clone());
            let mut b = build_direct(name, hs.clone()).unwrap();
            let ra = guarded(|| a.decode(&llrs, huge)).map_err(|e| Fail::new("panic", format!("{name}: factory decoder panicked with limit {huge}: {e}")))?;
            let rb = guarded(|| b.decode(&llrs, huge)).map_err(|e| Fail::new("panic", format!("{name}: direct decoder panicked with limit {huge}: {e}")))?;
            if ra != rb {
                return Err(Fail::new("factory-mismatch-huge-limit", format!("{name}: with iteration limit {huge} the factory-built decoder returns {ra:?}, the generic decoder returns {rb:?}")));
            }
            p.class("converged-frame-repeated-with-huge-limit");
        }
        direct_out.push(rb);
    }
    let mut newly = false;
    for i in 0..36 {
        let mut mask = 0u64;
        for j in 0..36 {
            if direct_out[i] != direct_out[j] {
                mask |= 1 << j;
            }
        }
        let old = SEP[i].fetch_or(mask, Ordering::Relaxed);
        if old | mask != old {
            newly = true;
        }
    }
    p.class_if(newly, "separated-a-new-pair");
    let distinct: BTreeSet<String> = direct_out.iter().map(|r| format!("{r:?}")).collect();
    p.class_if(distinct.len() >= 2, "implementations-disagree");
    if distinct.len() >= 2 {
        p.nontrivial();
    }
    p.metric("distinct_outputs_in_one_case", distinct.len() as f64);
    Ok(())
}

/// any matrix (checks of degree 0 and 1, isolated variables) and any LLR (NaN and infinities
/// included): the factory-built decoder and the directly built one must still behave alike, be it
/// a result or a panic (the min*-type arithmetics reject checks of degree < 2 by contract)
fn wild_strategy(_t: Tier) -> BoxedStrategy<DecCase> {
    super::c03::any_matrix()
        .prop_flat_map(|h| {
            let n = h.cols;
            let llr = prop_oneof![8 => any_llr(), 1 => Just(f64::NAN), 1 => Just(f64::INFINITY), 1 => Just(f64::NEG_INFINITY), 1 => Just(-f64::NAN)];
            (shuffled(Just(h)), proptest::collection::vec(llr, n), limit_strategy())
        })
        .prop_map(|(h, llrs, limit)| DecCase { h, llrs: llrs.into_iter().map(Fx).collect(), limit })
        .boxed()
}

fn check_wild(case: &DecCase, p: &mut Probe) -> Check {
    let llrs = fx_vec(&case.llrs);
    let hs = case.h.to_sparse();
    let mut any_panic = false;
    for name in NAMES {
        let imp = name.parse::<DecoderImplementation>().map_err(|e| Fail::new("from_str", format!("{name}: {e}")))?;
        // construction inside the guard: a panic at build time is behaviour too
        let ra = guarded(|| build_factory(&imp, hs.clone()).decode(&llrs, case.limit));
        let rb = guarded(|| build_direct(name, hs.clone()).unwrap().decode(&llrs, case.limit));
        p.inner += 1;
        match (&ra, &rb) {
            (Ok(a), Ok(b)) => {
                if a != b {
                    return Err(Fail::new("factory-mismatch", format!("{name}: factory-built decoder returns {a:?}, the generic decoder built directly with the named arithmetic and schedule returns {b:?}")));
                }
            }
            (Err(_), Err(_)) => any_panic = true,
            (Err(e), Ok(b)) => return Err(Fail::new("factory-mismatch", format!("{name}: building / running the factory-built decoder panicked ({e}), the generic decoder built directly with the named arithmetic and schedule returns {b:?}"))),
            (Ok(a), Err(e)) => return Err(Fail::new("factory-mismatch", format!("{name}: the factory-built decoder returns {a:?}, the generic decoder built directly panicked ({e})"))),
        }
    }
    let low = case.h.row_lists().iter().any(|r| r.len() <= 1);
    let nonfinite = llrs.iter().any(|x| !x.is_finite());
    p.class_if(low, "check-of-degree<=1");
    p.class_if(nonfinite, "non-finite-llr");
    p.class_if(any_panic, "both-sides-panicked");
    if low || nonfinite {
        p.nontrivial();
    }
    Ok(())
}

fn separation_report(_c: &u8, p: &mut Probe) -> Check {
    let mut separated = 0;
    for i in 0..36 {
        let m = SEP[i].load(Ordering::Relaxed);
        for j in (i + 1)..36 {
            if (m >> j) & 1 == 1 {
                separated += 1;
            } else {
                let s: &'static str = Box::leak(format!("inconclusive-unseparated:{}/{}", NAMES[i], NAMES[j]).into_boxed_str());
                p.class(s);
                eprintln!("vcheck: C18: pair {}/{} was not separated by this run's inputs (inconclusive for these two names)", NAMES[i], NAMES[j]);
            }
        }
    }
    p.metric("pairs_separated_of_630", separated as f64);
    p.nontrivial();
    Ok(())
}

// ---------------------------------------------------------------------------
// rejection of non-members

fn nonmember() -> impl Strategy<Value = String> {
    let name = || (0..36usize).prop_map(|i| NAMES[i].to_string());
    prop_oneof![
        Just(String::new()),
        name().prop_map(|s| s.to_lowercase()),
        name().prop_map(|s| s.to_uppercase()),
        name().prop_map(|s| format!(" {s}")),
        name().prop_map(|s| format!("{s} ")),
        name().prop_map(|s| format!("{s}\n")),
        name().prop_map(|s| format!("HL{s}")),
        name().prop_map(|s| format!("hl{s}")),
        (name(), "[A-Za-z0-9]{1,3}").prop_map(|(s, x)| format!("{s}{x}")),
        (name(), "[A-Za-z0-9]{1,3}").prop_map(|(s, x)| format!("{x}{s}")),
        // near-miss edits
        (name(), any::<u16>()).prop_map(|(s, a)| {
            let mut c: Vec<char> = s.chars().collect();
            let i = idx(a, c.len());
            c.remove(i);
            c.into_iter().collect()
        }),
        (name(), any::<u16>(), "[A-Za-z0-9 ]").prop_map(|(s, a, x)| {
            let mut c: Vec<char> = s.chars().collect();
            let i = idx(a, c.len() + 1);
            c.insert(i, x.chars().next().unwrap());
            c.into_iter().collect()
        }),
        (name(), any::<u16>()).prop_map(|(s, a)| {
            let mut c: Vec<char> = s.chars().collect();
            let i = idx(a, c.len() - 1);
            c.swap(i, i + 1);
            c.into_iter().collect()
        }),
        (name(), any::<u16>(), "[A-Za-z0-9]").prop_map(|(s, a, x)| {
            let mut c: Vec<char> = s.chars().collect();
            let i = idx(a, c.len());
            c[i] = x.chars().next().unwrap();
            c.into_iter().collect()
        }),
        "[A-Za-z0-9]{0,12}",
        // bytes that a text-handling shortcut may treat as padding or as nothing: NUL, other control
        // characters, non-breaking and zero-width spaces, a byte-order mark, appended or prepended
        (name(), prop_oneof![Just("\0"), Just("\0\0"), Just("\t"), Just("\n"), Just("\r\n"), Just("\u{a0}"), Just("\u{200b}"), Just("\u{feff}"), Just("\u{7f}")], any::<bool>()).prop_map(|(s, x, front)| if front { format!("{x}{s}") } else { format!("{s}{x}") }),
        // a name followed by NULs up to a total length of 8 or 16 bytes (zero-padded fixed-width keys)
        (name(), prop_oneof![Just(8usize), Just(16), Just(32)]).prop_map(|(s, w)| if s.len() < w { format!("{s}{}", "\0".repeat(w - s.len())) } else { format!("{s}\0") }),
    ]
}

fn check_reject(s: &String, p: &mut Probe) -> Check {
    if NAMES.contains(&s.as_str()) {
        p.class("member-by-accident");
        ensure!(s.parse::<DecoderImplementation>().is_ok(), "from_str", "{s}: member rejected");
        return Ok(());
    }
    p.nontrivial();
    p.class_if(NAMES.iter().any(|n| n.eq_ignore_ascii_case(s)), "case-variant");
    if let Ok(v) = s.parse::<DecoderImplementation>() {
        return Err(Fail::new("accepted-nonmember", format!("from_str accepted {s:?} as {v}")));
    }
    if let Ok(v) = <DecoderImplementation as ValueEnum>::from_str(s, false) {
        return Err(Fail::new("clap-accepted-nonmember", format!("ValueEnum::from_str accepted {s:?} as {v}")));
    }
    Ok(())
}

/// matrices with thousands of rows (no small generated matrix is like the codes the factory is used
/// for): r x (r + 37) with row weight 3, r in {1025, 4097, 4098, 5003, 8190}; three frames each
/// (weak wrong bits on the first rows, on the last rows, spread), limits 1 and 12; all 36 names
fn big_cases(_t: Tier) -> Vec<(usize, u8)> {
    [1025usize, 4097, 4098, 5003, 8190].iter().flat_map(|&r| (0..3u8).map(move |f| (r, f))).collect()
}

fn check_big(c: &(usize, u8), p: &mut Probe) -> Check {
    let (r, f) = *c;
    let n = r + 37;
    let mut m = Mat::new(r, n);
    for i in 0..r {
        let mut cols = vec![i, (i * 7 + 3) % n, n - 1 - (i % 37)];
        cols.sort();
        cols.dedup();
        for j in cols {
            m.ones.push((i, j));
        }
    }
    let hs = m.to_sparse();
    // the all-zero codeword with a few weak wrong bits
    let mut llrs = vec![3.5f64; n];
    let wrong: Vec<usize> = match f {
        0 => vec![0, 5, 11],
        1 => vec![r - 1, r - 2, r - 7, n - 1],
        _ => (0..9).map(|t| (t * (n / 9) + 4) % n).collect(),
    };
    for &j in &wrong {
        llrs[j] = -0.75;
    }
    for name in NAMES {
        let imp = name.parse::<DecoderImplementation>().map_err(|e| Fail::new("from_str", format!("{name}: {e}")))?;
        for limit in [1usize, 12] {
            let mut a = guarded(|| build_factory(&imp, hs.clone())).map_err(|e| Fail::new("panic", format!("{name}: the factory panicked on a {r} x {n} matrix: {e}")))?;
            let mut b = build_direct(name, hs.clone()).unwrap();
            let ra = guarded(|| a.decode(&llrs, limit)).map_err(|e| Fail::new("panic", format!("{name}: factory decoder panicked on a {r} x {n} matrix: {e}")))?;
            let rb = guarded(|| b.decode(&llrs, limit)).map_err(|e| Fail::new("panic", format!("{name}: direct decoder panicked: {e}")))?;
            p.inner += 1;
            if ra != rb {
                let ones = |x: &Result<ldpc_toolbox::decoder::DecoderOutput, ldpc_toolbox::decoder::DecoderOutput>| match x {
                    Ok(o) => format!("Ok after {} iterations with {} ones", o.iterations, o.codeword.iter().filter(|&&b| b == 1).count()),
                    Err(o) => format!("Err after {} iterations with {} ones", o.iterations, o.codeword.iter().filter(|&&b| b == 1).count()),
                };
                return Err(Fail::new("factory-mismatch-large-matrix", format!("{name} on a {r} x {n} matrix (row weight 3), weak wrong bits at {wrong:?}, limit {limit}: the factory-built decoder returns {}, the generic decoder built directly with the named arithmetic and schedule returns {}", ones(&ra), ones(&rb))));
            }
        }
    }
    p.nontrivial();
    Ok(())
}

pub fn property() -> Property {
    Property {
        id: "C18",
        subs: vec![
            Box::new(EnumSub {
                name: "names",
                rule: "exhaustive over the 36 documented names (listed in the harness, arithmetic and schedule derived from the spelling): FromStr, Display, to_possible_value and ValueEnum::from_str round-trip each spelling; value_variants() is exactly this set",
                cases: name_cases,
                check: check_name,
                exhaustive: true,
            }),
            Box::new(Sub {
                name: "differential",
                rule: "for each of the 36 names, factory-built decoder vs the generic decoder constructed directly from the named arithmetic type and schedule, on a separating family of inputs (C01 classes + strong LLRs 9..16.2 with sign flips so that degree-one clipping, Jones clipping, partial hard limiting, f32 saturation and schedule differences matter; H up to 10 x 14; limits {0,1,2,3,5,10}, a third of the decoder pairs called a second time under a larger limit, converged frames repeated under a limit of usize::MAX, 2^32, 2^31 or 2^32 - 1); outputs must be identical; for a quarter of the names the factory is asked twice in a row, the second time for a slightly different matrix of the same shape and row weights (two entries of a row moved towards each other, two columns exchanged, rows reversed, one entry moved), and that decoder is compared with the direct decoder of the second matrix; non-trivial = a case on which at least two of the 36 direct decoders disagree; inner evaluations = compared decoder pairs",
                cases: |t| t.pick(100_000, 3_000_000),
                strategy,
                check: check_diff,
                health: &[("implementations-disagree", 0.30)],
            }),
            Box::new(Sub {
                name: "differential-any-input",
                rule: "the same differential outside the decoders' comfortable domain: any matrix 1..=8 x 1..=12 (checks of degree 0 and 1, isolated variables; shuffled insertion order), LLR components from the C01 catalogue or NaN / -NaN / +-infinity, limits {0,...,200}; per name the outcome (result, or a panic at construction or decoding time) of the factory-built decoder must equal that of the directly built one; non-trivial = a check of degree <= 1 or a non-finite LLR",
                cases: |t| t.pick(30_000, 1_000_000),
                strategy: wild_strategy,
                check: check_wild,
                health: &[("check-of-degree<=1", 0.30), ("non-finite-llr", 0.30)],
            }),
            Box::new(EnumSub {
                name: "large-matrix",
                rule: "matrices r x (r + 37) of row weight 3 with r = 1025, 4097, 4098, 5003, 8190 x three frames (the zero codeword with weak wrong bits on the first rows, on the last rows, spread over the frame) x limits 1 and 12 x the 36 names: the factory-built decoder returns exactly what the generic decoder built directly returns",
                cases: big_cases,
                check: check_big,
                exhaustive: false,
            }),
            Box::new(EnumSub {
                name: "separation",
                rule: "bookkeeping: which of the 630 pairs of directly built decoders were told apart by the differential inputs of this run (a factory row pointing at another arithmetic or schedule is only detectable if that pair was separated); unseparated pairs are listed as classes and make the run inconclusive for those names, never a violation",
                cases: |_| vec![0u8],
                check: separation_report,
                exhaustive: false,
            }),
            Box::new(Sub {
                name: "rejection",
                rule: "generated non-members: case changes, surrounding/inner whitespace, HL prefix added to any name, random prefixes/suffixes, single-character deletions, insertions, transpositions and replacements of each name, random short strings, names with NUL / control / zero-width characters or a byte-order mark attached, names NUL-padded to 8, 16 or 32 bytes; FromStr and ValueEnum::from_str(_, false) must reject; strings that happen to be members are counted separately",
                cases: |t| t.pick(400_000, 10_000_000),
                strategy: |_| nonmember().boxed(),
                check: check_reject,
                health: &[],
            }),
        ],
        assumptions: vec![
            "the documented meaning of a name is: HL prefix = horizontal layered schedule, otherwise flooding; remainder = arithmetic type name".into(),
            "a wrong factory row is only detectable for pairs of implementations that the generated inputs separate; the separation count is reported".into(),
        ],
    }
}
