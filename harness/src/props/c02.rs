//! C02 — the systematic encoder always emits a codeword that begins with the message.

use crate::common::*;
use crate::engine::*;
use crate::ensure;
use ldpc_toolbox::encoder::Encoder;
use ldpc_toolbox::gf2::GF2;
use ndarray::Array1;
use num_traits::{One, Zero};
use proptest::prelude::*;
use serde::{Deserialize, Serialize};

#[derive(Debug, Clone, Serialize, Deserialize)]
pub struct Case {
    pub h: Mat,
    pub class: String,
    pub msg_seed: u64,
}

fn bits(n: usize) -> impl Strategy<Value = Vec<bool>> {
    prop_oneof![
        3 => proptest::collection::vec(any::<bool>(), n),
        1 => proptest::collection::vec(prop::bool::weighted(0.15), n),
        1 => proptest::collection::vec(prop::bool::weighted(0.85), n),
    ]
}

fn staircase_tail(r: usize) -> Vec<Vec<bool>> {
    let mut t = vec![vec![false; r]; r];
    for j in 0..r {
        t[j][j] = true;
        if j > 0 {
            t[j][j - 1] = true;
        }
    }
    t
}

#[allow(dead_code)]
fn bitmat_from(d: &[Vec<bool>]) -> BitMat {
    let mut m = BitMat::zero(d.len(), d.first().map_or(0, |x| x.len()));
    for (i, r) in d.iter().enumerate() {
        for (j, &b) in r.iter().enumerate() {
            if b {
                m.set(i, j, true);
            }
        }
    }
    m
}

fn dense_from(m: &BitMat) -> Vec<Vec<bool>> {
    (0..m.rows).map(|i| (0..m.cols).map(|j| m.get(i, j)).collect()).collect()
}

/// random invertible r x r matrix as P * L * U
fn invertible_tail(r: usize) -> impl Strategy<Value = Vec<Vec<bool>>> {
    (bits(r * r), bits(r * r), Just((0..r).collect::<Vec<usize>>()).prop_shuffle()).prop_map(move |(lb, ub, perm)| {
        let mut l = BitMat::identity(r);
        let mut u = BitMat::identity(r);
        for i in 0..r {
            for j in 0..r {
                if j < i && lb[i * r + j] {
                    l.set(i, j, true);
                }
                if j > i && ub[i * r + j] {
                    u.set(i, j, true);
                }
            }
        }
        let prod = dense_from(&l.mul(&u));
        perm.iter().map(|&p| prod[p].clone()).collect()
    })
}

fn assemble(h0: &[bool], k: usize, tail: &[Vec<bool>]) -> Mat {
    let r = tail.len();
    let n = k + r;
    let mut d = vec![vec![false; n]; r];
    for i in 0..r {
        for j in 0..k {
            d[i][j] = h0[i * k + j];
        }
        for j in 0..r {
            d[i][k + j] = tail[i][j];
        }
    }
    Mat::from_dense(&d)
}

pub fn strategy(maxdim: usize) -> BoxedStrategy<Case> {
    let dims = prop_oneof![
        6 => (1usize..=8, 0usize..=8),
        1 => (1usize..=1, 0usize..=10),
        1 => (1usize..=maxdim, Just(0usize)),
        2 => (1usize..=maxdim, 0usize..=maxdim).prop_map(move |(r, k)| (r, k.min(maxdim - r))),
    ];
    (dims, 0..8u8, any::<u64>())
        .prop_flat_map(|((r, k), class, msg_seed)| {
            let h0 = bits(r * k);
            let m: BoxedStrategy<(Mat, &'static str)> = match class {
                0 | 1 => h0.prop_map(move |h0| (assemble(&h0, k, &staircase_tail(r)), "staircase")).boxed(),
                2 => (h0, any::<u16>(), any::<u16>(), 0..6u8)
                    .prop_map(move |(h0, a, b, kind)| {
                        let mut t = staircase_tail(r);
                        let (i, j) = (idx(a, r), idx(b, r));
                        match kind {
                            // two cooperating deviations: an extra one in row 0 and a missing
                            // staircase entry elsewhere (the count of ones stays 2r-1)
                            4 | 5 if r >= 2 => {
                                let jj = 1 + idx(b, r - 1);
                                t[0][jj] = true;
                                let ii = 1 + idx(a, r - 1);
                                if kind == 4 {
                                    t[ii][ii] = false;
                                } else {
                                    t[ii][ii - 1] = false;
                                }
                            }
                            // one extra or one missing entry anywhere in the tail
                            0 | 1 => t[i][j] = !t[i][j],
                            // staircase shifted by one column (wraps)
                            2 => {
                                for row in t.iter_mut() {
                                    row.rotate_right(1);
                                }
                            }
                            // extra one in row 0
                            _ => t[0][j] = !t[0][j],
                        }
                        (assemble(&h0, k, &t), "near-staircase")
                    })
                    .boxed(),
                3 | 4 => (h0, invertible_tail(r)).prop_map(move |(h0, t)| (assemble(&h0, k, &t), "dense-invertible")).boxed(),
                5 => (h0, bits(r * r)).prop_map(move |(h0, t)| (assemble(&h0, k, &t.chunks(r).map(|c| c.to_vec()).collect::<Vec<_>>()), "dense-uniform")).boxed(),
                _ => (h0, invertible_tail(r), any::<u16>(), any::<u16>(), any::<u16>(), 0..3u8)
                    .prop_map(move |(h0, mut t, a, b, c, kind)| {
                        let (i, j, l) = (idx(a, r), idx(b, r), idx(c, r));
                        match kind {
                            // duplicate column (zero column when i == j is impossible, so use a real copy)
                            0 if r >= 2 && i != j => {
                                for row in t.iter_mut() {
                                    row[i] = row[j];
                                }
                            }
                            // a row equal to the sum of two others
                            1 if r >= 3 && i != j && j != l && i != l => {
                                let s: Vec<bool> = (0..r).map(|x| t[j][x] ^ t[l][x]).collect();
                                t[i] = s;
                            }
                            // zero column
                            _ => {
                                for row in t.iter_mut() {
                                    row[i] = false;
                                }
                            }
                        }
                        (assemble(&h0, k, &t), "singular-by-construction")
                    })
                    .boxed(),
            };
            (m, Just(msg_seed))
        })
        .prop_flat_map(|((h, class), msg_seed)| (shuffled(Just(h)), Just(class), Just(msg_seed)))
        .prop_map(|(h, class, msg_seed)| Case { h, class: class.to_string(), msg_seed })
        .boxed()
}

fn to_gf2(bits: &[u8]) -> Array1<GF2> {
    Array1::from_iter(bits.iter().map(|&b| if b == 1 { GF2::one() } else { GF2::zero() }))
}

fn from_gf2(a: &Array1<GF2>) -> Vec<u8> {
    a.iter().map(|x| u8::from(x.is_one())).collect()
}

pub fn check(case: &Case, p: &mut Probe) -> Check {
    let h = &case.h;
    let (r, n) = (h.rows, h.cols);
    let k = n - r;
    let hb = h.to_bits();
    let tail = hb.submatrix_cols(k, n);
    let invertible = tail.rank() == r;
    // one case in three reaches the constructor along another construction path of the matrix type
    // (bulk insertion with a repeated index, set_row, parsing of the own alist text)
    let path = if case.msg_seed % 3 == 2 { ((case.msg_seed / 3) % 6) as u8 } else { 0 };
    let hs = h.to_sparse_by(path);
    p.class_if(path != 0, "built-by-bulk-insertion-or-parsing");
    // history: in a third of the cases the constructor first sees, on the same thread, the zero
    // matrix of the same dimensions (singular tail: must be rejected, and must leave nothing behind)
    if case.msg_seed % 3 == 1 {
        // a matrix of the same dimensions with content and a singular tail: every row a copy of the
        // case's first non-empty row (rank <= 1); for a single row, the zero matrix
        let mut z = ldpc_toolbox::sparse::SparseMatrix::new(r, n);
        if r >= 2 {
            let rows = h.row_lists();
            if let Some(src) = rows.iter().find(|l| !l.is_empty()) {
                for i in 0..r {
                    for &c in src {
                        z.insert(i, c);
                    }
                }
            }
        }
        let w = guarded(|| Encoder::from_h(&z)).map_err(|e| Fail::new("from_h-panic", format!("Encoder::from_h panicked on a {r} x {n} matrix of rank <= 1: {e}")))?;
        ensure!(w.is_err(), "accepted-singular", "Encoder::from_h accepted a {r} x {n} matrix of rank <= 1 (all rows equal)");
        p.class("after-a-rejected-call");
    }
    let enc = guarded(|| Encoder::from_h(&hs)).map_err(|e| Fail::new("from_h-panic", format!("Encoder::from_h panicked: {e}")))?;
    match (&enc, invertible) {
        (Ok(_), false) => return Err(Fail::new("accepted-singular", "Encoder::from_h succeeded although the last r columns are singular over GF(2)".to_string())),
        (Err(e), true) => return Err(Fail::new("rejected-invertible", format!("Encoder::from_h returned {e:?} although the last r columns are invertible"))),
        _ => {}
    }
    let cls: &'static str = match case.class.as_str() {
        "staircase" => "staircase",
        "near-staircase" => "near-staircase",
        "dense-invertible" => "dense-invertible",
        "dense-uniform" => "dense-uniform",
        _ => "singular-by-construction",
    };
    p.class(cls);
    p.class_if(!invertible, "singular");
    p.class_if(k == 0, "square");
    p.class_if(r == 1, "single-row");
    p.class_if(k > 256, "message-longer-than-256");
    let Ok(enc) = enc else {
        if r >= 2 {
            p.nontrivial();
        }
        return Ok(());
    };
    // every fourth case works on a clone of the encoder built (Encoder is Clone)
    let enc = if case.msg_seed % 4 == 1 { enc.clone() } else { enc };
    p.class_if(case.msg_seed % 4 == 1, "encoder-cloned");
    let dbg = format!("{enc:?}");
    p.class_if(dbg.contains("Staircase"), "path-staircase");
    p.class_if(dbg.contains("DenseGenerator"), "path-dense");
    if k >= 1 && r >= 2 {
        p.nontrivial();
    }
    // history: a caller's mistake first - messages of a wrong length (one symbol short, three too many,
    // all ones), whatever they yield (a panic is caught, as a worker thread's supervisor would); the
    // well-formed calls that follow on the same thread must be unaffected
    if case.msg_seed % 5 == 3 && !FUZZ_MODE.load(std::sync::atomic::Ordering::Relaxed) {
        // ... and a constructor call on a matrix with more rows than columns (outside the constructor's domain)
        let mut tall = ldpc_toolbox::sparse::SparseMatrix::new(n + 1, n);
        for i in 0..n {
            tall.insert(i, i);
            tall.insert(i + 1, i);
        }
        let _ = guarded(|| Encoder::from_h(&tall));
        for len in [k.saturating_sub(1), k + 3] {
            if len != k {
                let _ = guarded(|| enc.encode(&to_gf2(&vec![1u8; len])));
            }
        }
        p.class("after-a-call-with-a-message-of-wrong-length");
    }
    // messages: all 2^k when k <= 8, otherwise 64 pseudo-random ones derived from the case seed
    let nmsg = if k <= 8 { 1usize << k } else { 64 };
    let mut s = case.msg_seed;
    let msg_at = |t: usize, s: &mut u64| -> Vec<u8> {
        if k <= 8 {
            (0..k).map(|b| ((t >> b) & 1) as u8).collect()
        } else if t < 14 {
            // low-weight messages (unit vectors, two ones), the zero and the all-ones message: a sparse
            // message leaves whole stretches of checks without any contribution
            *s = splitmix(*s);
            let mut m = vec![u8::from(t == 13); k];
            if t < 12 {
                m[(*s % k as u64) as usize] = 1;
            }
            if (6..12).contains(&t) {
                m[((*s >> 20) % k as u64) as usize] = 1;
            }
            m
        } else {
            (0..k)
                .map(|_| {
                    *s = splitmix(*s);
                    (*s & 1) as u8
                })
                .collect()
        }
    };
    let mut prev: Option<(Vec<u8>, Vec<u8>)> = None;
    for t in 0..nmsg {
        let msg = msg_at(t, &mut s);
        // the message is handed over in a memory layout that varies with the message index
        // (owned, reversed view, strided views, offset sub-range): encode takes any ArrayBase
        let lay = ((case.msg_seed as usize).wrapping_add(t) % LAYOUTS as usize) as u8;
        let gmsg: Vec<GF2> = to_gf2(&msg).to_vec();
        // every eighth case: the encoder built on this thread encodes on another one
        let moved = case.msg_seed % 8 == 6;
        let cw = guarded(|| with_layout(&gmsg, GF2::one(), lay, |v| if moved { on_other_thread(|| enc.encode(&v)) } else { enc.encode(&v) })).map_err(|e| Fail::new("encode-panic", format!("encode panicked (message layout {}): {e}", layout_name(lay))))?;
        let cw = from_gf2(&cw);
        p.class_if(moved, "encoder-used-on-another-thread");
        p.class_if(lay != 0, "message-in-non-standard-layout");
        p.inner += 1;
        ensure!(cw.len() == n, "length", "codeword has length {} instead of {n}", cw.len());
        ensure!(cw[..k] == msg[..], "not-systematic", "codeword {cw:?} does not begin with the message {msg:?} (message layout {})", layout_name(lay));
        ensure!(h.syndrome_ok(&cw), "not-codeword", "encode({msg:?}) = {cw:?} violates a parity check of H (message layout {})", layout_name(lay));
        if msg.iter().all(|&b| b == 0) {
            ensure!(cw.iter().all(|&b| b == 0), "zero", "encode(0) is not the zero word");
        }
        if let Some((pm, pc)) = &prev {
            // linearity on consecutive pairs
            let sm: Vec<u8> = pm.iter().zip(&msg).map(|(a, b)| a ^ b).collect();
            let sc = from_gf2(&enc.encode(&to_gf2(&sm)));
            let want: Vec<u8> = pc.iter().zip(&cw).map(|(a, b)| a ^ b).collect();
            ensure!(sc == want, "linearity", "encode(a+b) != encode(a)+encode(b) for a={pm:?} b={msg:?}");
        }
        prev = Some((msg, cw));
    }
    Ok(())
}

/// large matrices (more than 64 rows): sparse message part, tail = staircase, a permutation matrix
/// with a few extra ones below it (invertible, dense path with row exchanges) or a permutation
/// matrix with one column replaced by a copy of another (singular)
pub fn large_strategy(_t: Tier) -> BoxedStrategy<Case> {
    // tall shapes (many checks, few message columns) and, one in four, flat shapes whose message is
    // several hundred bits long (beyond any block width of a batched or parallel product)
    // `w64`: exact multiples of the machine word and their neighbours (bit-packed rows, lane widths)
    let w64 = || prop_oneof![Just(63usize), Just(64), Just(65), Just(127), Just(128), Just(129), Just(192), Just(256)];
    prop_oneof![
        6 => (60usize..=140, 1usize..=70, 0..3u8, any::<u64>()),
        2 => (2usize..=24, 200usize..=1100, 0..3u8, any::<u64>()),
        1 => (w64(), prop_oneof![1usize..=70, 65usize..=200], 0..3u8, any::<u64>()),
        1 => (2usize..=24, w64().prop_map(|k| if k < 128 { k * 4 } else { k }), 0..3u8, any::<u64>()),
        1 => (w64().prop_map(|r| r.min(129)), w64(), 0..3u8, any::<u64>())
    ]
        .prop_flat_map(|(r, k, kind, msg_seed)| {
            (
                Just((r, k, kind, msg_seed)),
                Just((0..r).collect::<Vec<usize>>()).prop_shuffle(),
                proptest::collection::vec((any::<u16>(), any::<u16>()), 0..=(3 * r + if k >= 100 { 2 * k } else { 0 })),
                proptest::collection::vec((any::<u16>(), any::<u16>()), 0..=12),
                (any::<u16>(), any::<u16>()),
            )
        })
        .prop_map(|((r, k, kind, msg_seed), perm, h0, extra, (da, db))| {
            let n = r + k;
            let mut set = std::collections::BTreeSet::new();
            for (a, b) in h0 {
                set.insert((idx(a, r), idx(b, k)));
            }
            let class = match kind {
                0 => {
                    set.insert((0, k));
                    for j in 1..r {
                        set.insert((j, k + j));
                        set.insert((j, k + j - 1));
                    }
                    "staircase"
                }
                1 => {
                    // P * (unit lower triangular): invertible
                    for i in 0..r {
                        set.insert((perm[i], k + i));
                    }
                    for (a, b) in extra {
                        let (i, j) = (idx(a, r), idx(b, r));
                        if i > j {
                            set.insert((perm[i], k + j));
                        }
                    }
                    "dense-invertible"
                }
                _ => {
                    for i in 0..r {
                        set.insert((perm[i], k + i));
                    }
                    let (x, y) = (idx(da, r), idx(db, r));
                    if x != y {
                        set.retain(|e| e.1 != k + y);
                        set.insert((perm[x], k + y));
                    } else {
                        set.retain(|e| e.1 != k + y);
                    }
                    "singular-by-construction"
                }
            };
            Case { h: Mat { rows: r, cols: n, ones: set.into_iter().collect() }, class: class.to_string(), msg_seed }
        })
        .prop_flat_map(|c| (shuffled(Just(c.h.clone())), Just(c)))
        .prop_map(|(h, mut c)| {
            c.h = h;
            c
        })
        .boxed()
}

/// a staircase code longer than 2^16 bits (35 000 x 70 600, `realcodes::code(4)`): the encoder must
/// reproduce the harness's own accumulator encoding of the same message (systematic encoding with an
/// invertible tail is unique)
fn wide_cases(_t: Tier) -> Vec<usize> {
    vec![0, 1, 2, 3, 4, 5]
}

/// a staircase code whose message alone is longer than 2^16 bits: 6 checks, 70 000 message columns,
/// 48 ones in the message part, placed in pairs of columns that agree modulo 2^16 (c and c + 65536)
/// and at the far end; the messages set exactly one column of each pair
fn check_wide_message(which: usize, p: &mut Probe) -> Check {
    let (r, k) = (6usize, 70_000usize);
    let n = r + k;
    let mut h = ldpc_toolbox::sparse::SparseMatrix::new(r, n);
    let mut rows: Vec<Vec<usize>> = vec![Vec::new(); r];
    for i in 0..r {
        for c in [i, 65_536 + i, 300 + 7 * i, 65_836 + 7 * i, 66_000 + 11 * i, 69_999 - i, 40_000 + i, 65_535 - i] {
            h.insert(i, c);
            rows[i].push(c);
        }
    }
    h.insert(0, k);
    for i in 1..r {
        h.insert(i, k + i);
        h.insert(i, k + i - 1);
    }
    let enc = guarded(|| Encoder::from_h(&h)).map_err(|e| Fail::new("from_h-panic", format!("Encoder::from_h panicked on the {r} x {n} staircase matrix: {e}")))?;
    let enc = enc.map_err(|e| Fail::new("rejected-invertible", format!("Encoder::from_h returned {e:?} for a {r} x {n} matrix whose last columns are an exact staircase")))?;
    let mut msg = vec![0u8; k];
    let mut s = 0x77aa_u64 + which as u64;
    for i in 0..r {
        for (t, &c) in rows[i].iter().enumerate() {
            // of each aliased pair (c, c + 65536) exactly one is set; the others pseudo-randomly
            s = splitmix(s);
            msg[c] = match t {
                0 | 2 => ((which + i) % 2) as u8,
                1 | 3 => ((which + i + 1) % 2) as u8,
                _ => (s & 1) as u8,
            };
        }
    }
    let lay = (which % LAYOUTS as usize) as u8;
    let gmsg: Vec<GF2> = to_gf2(&msg).to_vec();
    let cw = guarded(|| with_layout(&gmsg, GF2::one(), lay, |v| enc.encode(&v))).map_err(|e| Fail::new("encode-panic", format!("encode panicked on the {n}-bit code (message layout {}): {e}", layout_name(lay))))?;
    let cw = from_gf2(&cw);
    p.inner += 1;
    p.nontrivial();
    p.class("more-than-65536-message-columns");
    ensure!(cw.len() == n, "length", "codeword has length {} instead of {n}", cw.len());
    ensure!(cw[..k] == msg[..], "not-systematic", "{n}-bit staircase code with a {k}-bit message: the codeword does not begin with the message");
    let mut acc = 0u8;
    for i in 0..r {
        acc ^= rows[i].iter().fold(0u8, |a, &c| a ^ msg[c]);
        ensure!(cw[k + i] == acc, "not-codeword", "{r} x {n} staircase code (ones of check {i} in message columns {:?}): parity bit {i} is {}, the accumulator gives {acc} (message layout {})", rows[i], cw[k + i], layout_name(lay));
    }
    Ok(())
}

fn check_wide(which: &usize, p: &mut Probe) -> Check {
    if *which >= 3 {
        return check_wide_message(*which, p);
    }
    let rc = super::realcodes::code(4);
    let h = rc.h();
    let (n, k) = (rc.n, rc.k);
    let enc = guarded(|| Encoder::from_h(&h)).map_err(|e| Fail::new("from_h-panic", format!("Encoder::from_h panicked on the {} x {n} staircase matrix: {e}", n - k)))?;
    let enc = match enc {
        Ok(e) => e,
        Err(e) => return Err(Fail::new("rejected-invertible", format!("Encoder::from_h returned {e:?} for a {} x {n} matrix whose last columns are an exact staircase", n - k))),
    };
    p.class_if(format!("{enc:?}").contains("Staircase"), "path-staircase");
    let want = &rc.codewords[*which % rc.codewords.len()];
    let lay = (*which % LAYOUTS as usize) as u8;
    let gmsg: Vec<GF2> = to_gf2(&want[..k]).to_vec();
    let cw = guarded(|| with_layout(&gmsg, GF2::one(), lay, |v| enc.encode(&v))).map_err(|e| Fail::new("encode-panic", format!("encode panicked on the {n}-bit code (message layout {}): {e}", layout_name(lay))))?;
    let cw = from_gf2(&cw);
    p.inner += 1;
    p.nontrivial();
    p.class("more-than-65536-columns");
    ensure!(cw.len() == n, "length", "codeword has length {} instead of {n}", cw.len());
    if let Some(pos) = (0..n).find(|&i| cw[i] != want[i]) {
        let nbad = (0..n).filter(|&i| cw[i] != want[i]).count();
        return Err(Fail::new(
            if pos < k { "not-systematic" } else { "not-codeword" },
            format!("{n}-bit staircase code, message {which}: the encoder's word differs from the unique systematic codeword in {nbad} positions, first at {pos} (k = {k}, message layout {})", layout_name(lay)),
        ));
    }
    Ok(())
}

/// fuzz-target body: a byte tape decoded into a matrix (r <= n) and a message seed
pub fn fuzz_bytes(data: &[u8]) -> Check {
    FUZZ_MODE.store(true, std::sync::atomic::Ordering::Relaxed);
    let (h, salt) = mat_from_bytes(data, 12, true);
    let case = Case { h, class: "fuzz".into(), msg_seed: salt };
    let mut p = Probe::default();
    guarded_check(|| check(&case, &mut p))
}

pub fn property() -> Property {
    Property {
        id: "C02",
        subs: vec![Box::new(Sub {
            name: "encoder",
            rule: "H with 1 <= r <= n <= 16 (thorough 48) built by class: exact staircase tail + random H0; near-staircase (one toggled tail cell anywhere incl. row 0, staircase shifted by one column); [A | P L U] with a random invertible tail; uniform dense; singular tail by construction (duplicated column, zero column, a row equal to the sum of two others); square (k = 0); single row; ones inserted in shuffled order. Oracle: own GF(2) rank of the last r columns decides Ok / Err(SubmatrixNotInvertible), never a panic; in a fifth of the cases the constructor is first handed a matrix with more rows than columns and encode messages of a wrong length (outcomes ignored, panics caught); for Ok all 2^k messages (k <= 8) or 64 (twelve of weight one or two, zero, all-ones, 50 pseudo-random ones), handed over in six memory layouts in turn (owned, reversed view, stride 2, stride -2, offset sub-range, owned with negative stride): length n, first k symbols = message, own H c = 0, encode(0) = 0, linearity on consecutive pairs. Non-trivial = (k >= 1, r >= 2, invertible tail) or (singular tail, r >= 2); inner = encoded messages",
            cases: |t| t.pick(300_000, 6_000_000),
            strategy: |t| strategy(t.pick(16, 48)),
            check,
            health: &[("staircase", 0.15), ("near-staircase", 0.08), ("dense-invertible", 0.15), ("singular", 0.15), ("square", 0.05)],
        }),
        Box::new(Sub {
            name: "encoder-large",
            rule: "60..=140 rows, 1..=70 message columns (one in four: 2..=24 rows and 200..=1100 message columns with up to 2k + 3r ones in the message part; three in eleven: a number of rows and / or of message columns from {63, 64, 65, 127, 128, 129, 192, 256}, the word-size multiples and their neighbours), sparse message part; tail = exact staircase, a permutation matrix times a unit lower triangular one (invertible, dense path with row exchanges) or a permutation matrix with one column duplicated or removed (singular); 64 messages per accepted matrix (six unit vectors, six of weight at most two, the zero and the all-ones message, 50 pseudo-random ones); same oracle",
            cases: |t| t.pick(1_500, 50_000),
            strategy: large_strategy,
            check,
            health: &[],
        }),
        Box::new(EnumSub {
            name: "encoder-wide",
            rule: "one staircase code with more than 2^16 columns (35 000 x 70 600, sparse message part of column weight 3): from_h accepts it, encode of the zero message and of two pseudo-random messages (three memory layouts) equals the harness's own accumulator encoding bit for bit; and a 6 x 70 006 staircase code (a message of 70 000 bits, ones of the message part in pairs of columns that agree modulo 2^16), three messages that set exactly one column of each pair",
            cases: wide_cases,
            check: check_wide,
            exhaustive: false,
        })],
        assumptions: vec!["which internal path (staircase / dense) is taken is recorded as a class, not asserted (only C06 requires the linear-time path)".into()],
    }
}
