//! C04 — every arithmetic's check-node message is a faithful (approximate) box-plus.

use super::c05::{FArith, Fl, I8Arith};
use crate::common::*;
use crate::engine::*;
use crate::ensure;
use ldpc_toolbox::decoder::arithmetic::*;
use ldpc_toolbox::decoder::{Message, SentMessage};
use proptest::prelude::*;
use serde::{Deserialize, Serialize};

// ---------------------------------------------------------------------------
// own reference

/// exact pairwise box-plus, numerically stable
pub fn boxplus(a: f64, b: f64) -> f64 {
    let (x, y) = (a.abs(), b.abs());
    let m = x.min(y) + (-(x + y)).exp().ln_1p() - (-(x - y).abs()).exp().ln_1p();
    let m = m.max(0.0);
    if (a < 0.0) != (b < 0.0) { -m } else { m }
}

fn fold_boxplus(vals: impl Iterator<Item = f64>) -> f64 {
    let mut acc: Option<f64> = None;
    for v in vals {
        acc = Some(match acc {
            None => v,
            Some(a) => boxplus(a, v),
        });
    }
    acc.unwrap_or(f64::INFINITY)
}

fn exact_others(vals: &[f64], i: usize) -> f64 {
    fold_boxplus(vals.iter().enumerate().filter(|(j, _)| *j != i).map(|(_, v)| *v))
}

fn exact_all(vals: &[f64]) -> f64 {
    fold_boxplus(vals.iter().copied())
}

fn phi(x: f64) -> f64 {
    -((0.5 * x.max(1e-30)).tanh().ln())
}

/// min* approximation folded in presentation order over the others (real valued)
fn minstar_approx_others(vals: &[f64], i: usize) -> f64 {
    let mut acc: Option<f64> = None;
    for (j, v) in vals.iter().enumerate() {
        if j == i {
            continue;
        }
        let x = v.abs();
        acc = Some(match acc {
            None => x,
            Some(y) => (x.min(y) - (-(x - y).abs()).exp().ln_1p()).max(0.0),
        });
    }
    acc.unwrap_or(f64::INFINITY)
}

fn sign_others(vals: &[f64], i: usize) -> f64 {
    let neg = vals.iter().enumerate().filter(|(j, v)| *j != i && **v < 0.0).count() % 2 == 1;
    if neg { -1.0 } else { 1.0 }
}

fn min_other_mag(vals: &[f64], i: usize) -> f64 {
    vals.iter().enumerate().filter(|(j, _)| *j != i).map(|(_, v)| v.abs()).fold(f64::INFINITY, f64::min)
}

#[derive(Debug, Clone, Copy, PartialEq, Eq)]
enum Family {
    Phi,
    Tanh,
    MinstarApprox,
    Aminstar,
}

fn family(name: &str) -> Family {
    if name.starts_with("Phi") {
        Family::Phi
    } else if name.starts_with("Tanh") {
        Family::Tanh
    } else if name.starts_with("Minstarapprox") {
        Family::MinstarApprox
    } else {
        Family::Aminstar
    }
}

fn sources_for(d: usize, seed: u16) -> Vec<usize> {
    // distinct, non-monotone tags
    let base = (seed as usize) % 50;
    let stride = 1 + (seed as usize >> 8) % 7;
    let mut v: Vec<usize> = (0..d).map(|i| base + i * stride).collect();
    if seed & 1 == 1 {
        v.reverse();
    }
    v
}

/// runs the rule and returns the message per neighbour (clause (i): exactly one each)
fn run_rule<A: DecoderArithmetic>(name: &str, a: &mut A, vals: &[A::VarMessage], sources: &[usize]) -> Result<Vec<A::CheckMessage>, Fail> {
    let msgs: Vec<Message<A::VarMessage>> = vals.iter().zip(sources).map(|(&v, &s)| Message { source: s, value: v }).collect();
    let mut out: Vec<Option<A::CheckMessage>> = vec![None; vals.len()];
    let mut bad: Option<String> = None;
    guarded(|| {
        a.send_check_messages(&msgs, |m: SentMessage<A::CheckMessage>| match sources.iter().position(|&s| s == m.dest) {
            Some(k) if out[k].is_none() => out[k] = Some(m.value),
            Some(k) => bad = Some(format!("two messages sent to neighbour {k} (tag {})", m.dest)),
            None => bad = Some(format!("message sent to unknown destination {}", m.dest)),
        })
    })
    .map_err(|e| Fail::new("check-rule-panic", format!("{name}: send_check_messages panicked: {e}")))?;
    if let Some(b) = bad {
        return Err(Fail::new("one-per-neighbour", format!("{name}: {b}")));
    }
    let mut res = Vec::new();
    for (k, o) in out.into_iter().enumerate() {
        res.push(o.ok_or_else(|| Fail::new("one-per-neighbour", format!("{name}: no message sent to neighbour {k}")))?);
    }
    Ok(res)
}

// ---------------------------------------------------------------------------
// float types

#[derive(Debug, Clone, Serialize, Deserialize)]
pub struct FCase {
    /// values in [-30, 30] (scaled by 0.4 for the f32 types)
    pub vals: Vec<Fx>,
    pub tag: u16,
    /// messages of an earlier check node processed by the *same* arithmetic object
    /// (any degree, typically larger): the rule must not depend on that history
    #[serde(default)]
    pub warm: Vec<Fx>,
}

fn fvals(d: usize) -> BoxedStrategy<Vec<f64>> {
    let v = || prop_oneof![5 => -30.0f64..30.0, 3 => -6.0f64..6.0, 1 => -1.0f64..1.0];
    prop_oneof![
        5 => proptest::collection::vec(v(), d),
        // all equal magnitude
        1 => (0.05f64..30.0, proptest::collection::vec(any::<bool>(), d)).prop_map(|(m, s)| s.into_iter().map(|b| if b { -m } else { m }).collect()),
        // one tiny
        1 => (proptest::collection::vec(v(), d), any::<u16>(), prop_oneof![Just(0.0), Just(1e-12), Just(-1e-7), Just(1e-3)]).prop_map(|(mut x, k, t)| { let i = idx(k, x.len()); x[i] = t; x }),
        // two equal minima (argmin ties)
        2 => (proptest::collection::vec(v(), d), any::<u16>(), any::<u16>(), any::<bool>()).prop_map(|(mut x, a, b, flip)| {
            let m = x.iter().map(|y| y.abs()).fold(f64::INFINITY, f64::min) * 0.5;
            let (i, j) = (idx(a, x.len()), idx(b, x.len()));
            x[i] = m;
            x[j] = if flip { -m } else { m };
            x
        }),
        // zeros
        1 => (proptest::collection::vec(v(), d), any::<u16>(), any::<bool>()).prop_map(|(mut x, k, neg)| { let i = idx(k, x.len()); x[i] = if neg { -0.0 } else { 0.0 }; x }),
        // near the 8-bit landmarks 100/8 and 127/8
        1 => proptest::collection::vec(prop_oneof![(12.4f64..12.6), (-12.6f64..-12.4), (15.8f64..15.95), (-15.95f64..-15.8), (13.0f64..30.0)], d),
        // strong messages (outputs stay large)
        1 => proptest::collection::vec(prop_oneof![(8.0f64..30.0), (-30.0f64..-8.0)], d),
    ]
    .boxed()
}

fn f_strategy(_t: Tier) -> BoxedStrategy<FCase> {
    (prop_oneof![8 => 2usize..=4, 8 => 5usize..=10, 4 => 11usize..=30, 1 => 31usize..=80], any::<u16>())
        .prop_flat_map(|(d, tag)| (fvals(d), Just(tag), prop_oneof![2 => Just(vec![]), 3 => (2usize..=40).prop_flat_map(|w| proptest::collection::vec(-25.0f64..25.0, w))]))
        .prop_map(|(vals, tag, warm)| FCase { vals: vals.into_iter().map(Fx).collect(), tag, warm: warm.into_iter().map(Fx).collect() })
        .boxed()
}

fn f_one<F: Fl, A: FArith<F>>(name: &str, a: &mut A, case: &FCase, wide: bool, p: &mut Probe) -> Check {
    let fam = family(name);
    let scale = if F::EPS > 1e-10 && !wide { 0.4 } else { 1.0 };
    let fv: Vec<F> = case.vals.iter().map(|x| F::from64(x.0 * scale)).collect();
    let vals: Vec<f64> = fv.iter().map(|x| x.to64()).collect();
    let d = vals.len();
    let sources = sources_for(d, case.tag);
    if case.warm.len() >= 2 {
        // an earlier, unrelated check node on the same arithmetic object
        let wv: Vec<F> = case.warm.iter().map(|x| F::from64(x.0 * scale)).collect();
        let _ = run_rule(name, a, &wv, &sources_for(wv.len(), case.tag ^ 0x5a5a))?;
        // ... or through the other entry point of the same object, the layered update
        if case.tag & 0x200 != 0 {
            super::impls::layered_warm(a, &case.warm.iter().map(|x| x.0 * scale).collect::<Vec<f64>>());
            p.class("after-a-layered-update");
        }
    }
    let out = run_rule(name, a, &fv, &sources)?;
    let sum_phi: f64 = vals.iter().map(|x| phi(x.abs())).sum();
    let maxabs = vals.iter().fold(0.0f64, |m, x| m.max(x.abs()));
    let minmag = vals.iter().fold(f64::INFINITY, |m, x| m.min(x.abs()));
    let ties: Vec<usize> = (0..d).filter(|&i| vals[i].abs() == minmag).collect();
    p.class_if(ties.len() >= 2, "argmin-tie");
    let all = exact_all(&vals).abs();
    for i in 0..d {
        let y = out[i].to64();
        let ex = exact_others(&vals, i);
        let exm = ex.abs();
        let tol = match fam {
            Family::Phi | Family::Tanh => 16.0 * F::EPS * ((d as f64 + sum_phi) * exm.min(700.0).exp() / 2.0 + d as f64 + exm),
            _ => 16.0 * F::EPS * d as f64 * (maxabs + 1.0),
        };
        ensure!(!y.is_nan(), "nan", "{name}: message to neighbour {i} is NaN for inputs {vals:?}");
        // (ii) sign
        if exm > tol && y.abs() > tol {
            ensure!((y < 0.0) == (sign_others(&vals, i) < 0.0), "sign", "{name}: message to neighbour {i} is {y:e}, the product of the other signs is {} (inputs {vals:?})", sign_others(&vals, i));
        }
        // (iii) never larger than the smallest other magnitude
        let mo = min_other_mag(&vals, i);
        ensure!(y.abs() <= mo + tol, "magnitude", "{name}: |message to neighbour {i}| = {:e} exceeds the smallest other magnitude {mo:e} (tol {tol:e}, inputs {vals:?})", y.abs());
        if wide {
            continue;
        }
        // (iv) family value
        match fam {
            Family::Phi | Family::Tanh => {
                let err = (y - ex).abs();
                p.metric(if F::EPS > 1e-10 { "f32_exact_err_over_tol" } else { "f64_exact_err_over_tol" }, err / tol);
                ensure!(err <= tol, "value", "{name}: message to neighbour {i} is {y:e}, 2*atanh(prod tanh(x/2)) over the others is {ex:e} (|diff| {err:e} > tol {tol:e}; inputs {vals:?})");
            }
            Family::Aminstar => {
                let want_min = exm; // box-plus of the others
                let want_rest = all; // box-plus of all inputs
                let ok_min = (y.abs() - want_min).abs() <= tol;
                let ok_rest = (y.abs() - want_rest).abs() <= tol;
                let e_min = (y.abs() - want_min).abs();
                let e_rest = (y.abs() - want_rest).abs();
                p.metric("aminstar_err_over_tol", if ties == vec![i] { e_min } else if ties.contains(&i) { e_min.min(e_rest) } else { e_rest } / tol);
                if ties == vec![i] {
                    ensure!(ok_min, "value", "{name}: least reliable neighbour {i} gets |{y:e}|, box-plus of the others is {want_min:e} (inputs {vals:?})");
                } else if ties.contains(&i) {
                    ensure!(ok_min || ok_rest, "value", "{name}: tied least reliable neighbour {i} gets |{y:e}|, expected {want_min:e} or {want_rest:e} (inputs {vals:?})");
                } else {
                    ensure!(ok_rest, "value", "{name}: neighbour {i} gets |{y:e}|, box-plus of all inputs is {want_rest:e} (inputs {vals:?})");
                }
            }
            Family::MinstarApprox => {
                let lo = (exm - (d as f64 - 2.0) * std::f64::consts::LN_2).max(0.0) - tol;
                let hi = exm + tol;
                ensure!(y.abs() >= lo && y.abs() <= hi, "value", "{name}: |message to neighbour {i}| = {:e} outside [{lo:e}, {hi:e}] = [exact - (d-2) ln 2, exact] (inputs {vals:?})", y.abs());
                // and it follows its definition (sequential fold in presentation order)
                let def = minstar_approx_others(&vals, i);
                let err = (y.abs() - def).abs();
                p.metric("minstar_def_err_over_tol", err / tol);
                ensure!(err <= tol, "value-def", "{name}: |message to neighbour {i}| = {:e}, the documented approximation min(|x|,|y|) - log(1+exp(-||x|-|y||)) folded over the others gives {def:e} (inputs {vals:?})", y.abs());
            }
        }
        if exm >= 0.1 {
            p.class("output-magnitude>=0.1");
            if d >= 3 {
                p.nontrivial();
            }
        }
    }
    Ok(())
}

fn check_f(case: &FCase, p: &mut Probe) -> Check {
    macro_rules! all64 {
        ($($t:ident),*) => { $( {
            let mut a = super::impls::mk(<$t>::new, case.tag & 0x100 != 0);
            // one case in sixteen: the object built here is used on another thread
            if case.tag & 0xf000 == 0x3000 { on_other_thread(|| f_one::<f64, $t>(stringify!($t), &mut a, case, false, p))?; } else { f_one::<f64, $t>(stringify!($t), &mut a, case, false, p)?; }
            p.inner += 1;
        } )* };
    }
    macro_rules! all32 {
        ($($t:ident),*) => { $( {
            let mut a = super::impls::mk(<$t>::new, case.tag & 0x100 != 0);
            if case.tag & 0xf000 == 0x3000 { on_other_thread(|| f_one::<f32, $t>(stringify!($t), &mut a, case, false, p))?; } else { f_one::<f32, $t>(stringify!($t), &mut a, case, false, p)?; }
            p.inner += 1;
        } )* };
    }
    crate::with_f64_types!(all64);
    crate::with_f32_types!(all32);
    p.class_if(case.vals.len() >= 11, "degree>=11");
    p.class_if(case.tag & 0xf000 == 0x3000, "object-used-on-another-thread");
    p.class_if(case.warm.len() > case.vals.len(), "after-larger-check");
    Ok(())
}

/// sign / magnitude clauses at any magnitude for the tanh, min* and A-Min* families
fn wide_strategy(_t: Tier) -> BoxedStrategy<FCase> {
    let v = prop_oneof![
        3 => (-30i32..=30, any::<bool>(), 1.0f64..10.0).prop_map(|(e, s, m)| { let x = m * 10f64.powi(e); if s { -x } else { x } }),
        2 => -200.0f64..200.0,
        1 => Just(1e30),
        1 => Just(-1e30),
        1 => Just(0.0),
        1 => Just(5e-324),
    ];
    (2usize..=12, any::<u16>())
        .prop_flat_map(move |(d, tag)| (proptest::collection::vec(v.clone(), d), Just(tag)))
        .prop_map(|(vals, tag)| FCase { vals: vals.into_iter().map(Fx).collect(), tag, warm: vec![] })
        .boxed()
}

fn check_wide(case: &FCase, p: &mut Probe) -> Check {
    f_one::<f64, Tanhf64>("Tanhf64", &mut Tanhf64::new(), case, true, p)?;
    f_one::<f64, Minstarapproxf64>("Minstarapproxf64", &mut Minstarapproxf64::new(), case, true, p)?;
    f_one::<f64, Aminstarf64>("Aminstarf64", &mut Aminstarf64::new(), case, true, p)?;
    f_one::<f32, Tanhf32>("Tanhf32", &mut Tanhf32::new(), case, true, p)?;
    f_one::<f32, Minstarapproxf32>("Minstarapproxf32", &mut Minstarapproxf32::new(), case, true, p)?;
    f_one::<f32, Aminstarf32>("Aminstarf32", &mut Aminstarf32::new(), case, true, p)?;
    p.inner += 6;
    if case.vals.iter().any(|x| x.0.abs() > 40.0) && case.vals.len() >= 3 {
        p.nontrivial();
    }
    Ok(())
}

// ---------------------------------------------------------------------------
// 8-bit types

fn i8_check_vector<A: I8Arith>(name: &str, a: &mut A, v: &[i8], sources: &[usize], p: &mut Probe) -> Check {
    let fam = family(name);
    let phl = name.contains("PartialHardLimit");
    let d = v.len();
    let out = run_rule(name, a, v, sources)?;
    let units: Vec<f64> = v.iter().map(|&x| x as f64).collect();
    let llr: Vec<f64> = units.iter().map(|x| x / 8.0).collect();
    let minmag = v.iter().map(|x| x.unsigned_abs()).min().unwrap();
    let ties: Vec<usize> = (0..d).filter(|&i| v[i].unsigned_abs() == minmag).collect();
    let all = 8.0 * exact_all(&llr).abs();
    for i in 0..d {
        let y = out[i] as f64;
        ensure!(out[i] != -128, "minus128", "{name}: check message -128 for inputs {v:?}");
        let mo = v.iter().enumerate().filter(|(j, _)| *j != i).map(|(_, x)| x.unsigned_abs() as f64).fold(f64::INFINITY, f64::min);
        // reference value(s) in units and number of table look-ups on the path
        let (refs, lookups): (Vec<f64>, f64) = match fam {
            Family::MinstarApprox => (vec![8.0 * minstar_approx_others(&llr, i)], (d as f64 - 2.0).max(0.0)),
            _ => {
                let others = 8.0 * exact_others(&llr, i).abs();
                if ties == vec![i] {
                    (vec![others], 2.0 * (d as f64 - 2.0).max(0.0))
                } else if ties.contains(&i) {
                    (vec![others, all], 2.0 * (d as f64 - 1.0))
                } else {
                    (vec![all], 2.0 * (d as f64 - 1.0))
                }
            }
        };
        let tol = 0.5 * lookups + 1e-9;
        let limited = phl && y.abs() == 127.0;
        if limited {
            p.class("hard-limit-taken");
            ensure!(refs.iter().any(|r| *r >= 100.0 - tol), "hard-limit", "{name}: message to neighbour {i} is hard-limited to {y} but the unlimited value is about {refs:?} < 100 (inputs {v:?})");
        } else {
            if phl {
                ensure!(y.abs() < 100.0, "hard-limit-missing", "{name}: message {y} to neighbour {i} has magnitude >= 100 but was not promoted to 127 (inputs {v:?})");
            }
            ensure!(refs.iter().any(|r| (y.abs() - r).abs() <= tol), "value", "{name}: |message to neighbour {i}| = {} but the real-valued counterpart at 8 units per LLR gives {refs:?} (tolerance {tol} = 0.5 x {lookups} table look-ups; inputs {v:?})", y.abs());
            ensure!(y.abs() <= mo, "magnitude", "{name}: |message to neighbour {i}| = {} exceeds the smallest other magnitude {mo} (inputs {v:?})", y.abs());
        }
        let r0 = refs[0];
        if r0 > tol.max(0.5) && y != 0.0 {
            ensure!((y < 0.0) == (sign_others(&units, i) < 0.0), "sign", "{name}: message to neighbour {i} is {y}, the product of the other signs is {} (inputs {v:?})", sign_others(&units, i));
        }
        if r0 >= 1.0 {
            p.class("output-magnitude>=1");
            if d >= 3 {
                p.nontrivial();
            }
        }
    }
    p.class_if(ties.len() >= 2, "argmin-tie");
    Ok(())
}

#[derive(Debug, Clone, Serialize, Deserialize)]
pub struct I8Case {
    pub vals: Vec<i8>,
    pub tag: u16,
    /// an earlier check node processed by the same arithmetic object
    #[serde(default)]
    pub warm: Vec<i8>,
}

fn i8_strategy(_t: Tier) -> BoxedStrategy<I8Case> {
    let d = prop_oneof![3 => 3usize..=4, 4 => 5usize..=10, 2 => 11usize..=30];
    (d, any::<u16>())
        .prop_flat_map(|(d, tag)| {
            let vals = prop_oneof![
                4 => proptest::collection::vec(-127i8..=127, d),
                2 => proptest::collection::vec(prop_oneof![90i8..=127, -127i8..=-90], d),
                1 => proptest::collection::vec(prop_oneof![100i8..=127, -127i8..=-100], d),
                1 => proptest::collection::vec(-16i8..=16, d),
                1 => (proptest::collection::vec(-127i8..=127, d), any::<u16>(), any::<u16>()).prop_map(|(mut x, a, b)| {
                    let m = (x.iter().map(|y| y.unsigned_abs()).min().unwrap() / 2) as i8;
                    let (i, j) = (idx(a, x.len()), idx(b, x.len()));
                    x[i] = m;
                    x[j] = -m;
                    x
                }),
            ];
            (vals, Just(tag), prop_oneof![2 => Just(vec![]), 3 => (2usize..=40).prop_flat_map(|w| proptest::collection::vec(-127i8..=127, w))])
        })
        .prop_map(|(vals, tag, warm)| I8Case { vals, tag, warm })
        .boxed()
}

fn check_i8(case: &I8Case, p: &mut Probe) -> Check {
    let sources = sources_for(case.vals.len(), case.tag);
    macro_rules! all {
        ($($t:ident),*) => { $( {
            let mut a = super::impls::mk(<$t>::new, case.tag & 0x100 != 0);
            if case.warm.len() >= 2 {
                let _ = run_rule(stringify!($t), &mut a, &case.warm, &sources_for(case.warm.len(), case.tag ^ 0x5a5a))?;
                if case.tag & 0x200 != 0 {
                    super::impls::layered_warm(&mut a, &case.warm.iter().map(|&x| f64::from(x) / 8.0).collect::<Vec<f64>>());
                    p.class("after-a-layered-update");
                }
            }
            // one case in sixteen: the object built (and warmed up) here is used on another thread
            if case.tag & 0xf000 == 0x3000 {
                on_other_thread(|| i8_check_vector(stringify!($t), &mut a, &case.vals, &sources, p))?;
                p.class("object-used-on-another-thread");
            } else {
                i8_check_vector(stringify!($t), &mut a, &case.vals, &sources, p)?;
            }
            p.inner += 1;
        } )* };
    }
    crate::with_i8_types!(all);
    p.class_if(case.warm.len() > case.vals.len(), "after-larger-check");
    Ok(())
}

/// exhaustive blocks: first value fixed by the block, the rest enumerated
#[derive(Debug, Clone, Serialize, Deserialize)]
pub struct Block {
    pub degree: usize,
    pub first: i8,
    /// for degree 3 in the quick tier: the third value is taken from this list only
    pub thirds: Vec<i8>,
}

fn blocks(t: Tier) -> Vec<Block> {
    let mut v = Vec::new();
    for a in -127i8..=127 {
        v.push(Block { degree: 2, first: a, thirds: vec![] });
    }
    let thirds: Vec<i8> = match t {
        Tier::Quick => vec![0, 1, -1, 2, -3, 7, -12, 25, 50, -77, 99, -100, 101, 126, 127, -127],
        Tier::Thorough => (-127i8..=127).collect(),
    };
    for a in -127i8..=127 {
        v.push(Block { degree: 3, first: a, thirds: thirds.clone() });
    }
    v
}

fn check_block(b: &Block, p: &mut Probe) -> Check {
    macro_rules! all {
        ($($t:ident),*) => {
            $(
                {
                    let mut a = super::impls::mk(<$t>::new, b.first & 1 == 1);
                    if b.degree == 2 {
                        for y in -127i8..=127 {
                            i8_check_vector(stringify!($t), &mut a, &[b.first, y], &[4, 9], p)?;
                            p.inner += 1;
                        }
                    } else {
                        for y in -127i8..=127 {
                            for &z in &b.thirds {
                                i8_check_vector(stringify!($t), &mut a, &[b.first, y, z], &[11, 2, 5], p)?;
                                p.inner += 1;
                            }
                        }
                    }
                }
            )*
        };
    }
    crate::with_i8_types!(all);
    // classes counted per vector above are collapsed per block; the block itself is the case
    p.nontrivial();
    Ok(())
}

// ---------------------------------------------------------------------------
// self check of the reference

fn ref_cases(_t: Tier) -> Vec<u8> {
    vec![0, 1]
}

fn check_reference(which: &u8, p: &mut Probe) -> Check {
    p.nontrivial();
    // well-conditioned grid: box-plus fold vs 2 atanh(prod tanh(x/2))
    let grid = [-3.0, -1.7, -0.6, -0.2, 0.3, 0.9, 1.4, 2.5, 3.1];
    if *which == 0 {
        for &a in &grid {
            for &b in &grid {
                for &c in &grid {
                    let f = fold_boxplus([a, b, c].into_iter());
                    let t: f64 = 2.0 * ((a / 2.0f64).tanh() * (b / 2.0f64).tanh() * (c / 2.0f64).tanh()).atanh();
                    ensure!((f - t).abs() <= 1e-12, "reference", "own box-plus {f} differs from the tanh form {t} at ({a},{b},{c})");
                    p.inner += 1;
                }
            }
        }
    } else {
        // associativity / commutativity of the reference on a coarse grid
        for &a in &grid {
            for &b in &grid {
                ensure!((boxplus(a, b) - boxplus(b, a)).abs() <= 1e-15, "reference", "box-plus not commutative at ({a},{b})");
                for &c in &grid {
                    let l = boxplus(boxplus(a, b), c);
                    let r = boxplus(a, boxplus(b, c));
                    ensure!((l - r).abs() <= 1e-12, "reference", "box-plus not associative at ({a},{b},{c})");
                    p.inner += 1;
                }
            }
        }
    }
    Ok(())
}

pub fn property() -> Property {
    Property {
        id: "C04",
        subs: vec![
            Box::new(EnumSub {
                name: "reference-selfcheck",
                rule: "the own box-plus reference against 2*atanh(prod tanh(x/2)) and its algebraic laws on a well-conditioned 9^3 grid",
                cases: ref_cases,
                check: check_reference,
                exhaustive: false,
            }),
            Box::new(EnumSub {
                name: "i8-exhaustive",
                rule: "the sixteen 8-bit types (objects built by new() or Default::default(), alternating), exhaustively: all 255^2 vectors of degree 2, and degree 3 with the third value from a 16-value set incl. 0, +-1, 99/100/101, +-127 (quick) or all 255^3 vectors (thorough); one case = one block with the first value fixed, inner = rule evaluations; oracle as in i8-random (look-up table read through min*(a,b) at every distance |a|-|b|)",
                cases: blocks,
                check: check_block,
                exhaustive: true,
            }),
            Box::new(Sub {
                name: "i8-random",
                rule: "the sixteen 8-bit types (objects built by new() or Default::default(), drawn per case), degree 3..=30 (in 60 % of the cases after an unrelated check node on the same arithmetic object, half of these also after a layered update of an unrelated row through the same object), values in [-127,127] (uniform; magnitudes 90..127 and 100..127 so that partial hard-limiting triggers; small; tied minima), distinct non-monotone source tags; oracle per emitted message: exactly one per neighbour with dest = that neighbour's source; never -128; |y - 8 f(x/8)| <= 0.5 L with f the own real-valued min*-approximation (sequential fold) resp. exact box-plus (A-Min*: others for the least reliable neighbour, all inputs for every other neighbour) and L the table look-ups on the path; magnitude <= smallest other magnitude; sign = product of the other signs when the reference exceeds the tolerance; partial-hard-limit types: +-127 only if the reference >= 100 - tol, otherwise |y| < 100; non-trivial = degree >= 3 and reference >= 1 unit",
                cases: |t| t.pick(300_000, 10_000_000),
                strategy: i8_strategy,
                check: check_i8,
                health: &[("argmin-tie", 0.05), ("output-magnitude>=1", 0.60), ("hard-limit-taken", 0.10)],
            }),
            Box::new(Sub {
                name: "float",
                rule: "the eight float types, degree 2..=30 (one case in 21: 31..=80; in 60 % of the cases after an unrelated check of degree 2..=40 was processed by the same arithmetic object: the rule must not depend on that history), values in the working range (|x| <= 30 for f64, <= 12 for f32) by classes (uniform, all equal magnitude, one tiny/zero, two equal minima, zeros, near 100/8 and 127/8, all strong); oracle against the own exact box-plus fold: one message per neighbour; sign; magnitude <= smallest other + tol; phi/tanh within 16 eps ((d + sum phi(|x_j|)) e^|y|/2 + d + |y|); A-Min*: box-plus of the others for the least reliable neighbour, of all inputs for the others, tol 16 eps d (max|x|+1); min*-approx inside [max(0, exact-(d-2) ln2), exact] and equal to its documented sequential definition; non-trivial = degree >= 3 and an exact output magnitude >= 0.1",
                cases: |t| t.pick(300_000, 10_000_000),
                strategy: f_strategy,
                check: check_f,
                health: &[("argmin-tie", 0.05), ("output-magnitude>=0.1", 0.60)],
            }),
            Box::new(Sub {
                name: "float-wide",
                rule: "tanh, min*-approx and A-Min* float types at any magnitude up to 1e30 (incl. 0, subnormal): one message per neighbour, sign and 'never larger than the smallest other magnitude' clauses only (the phi rule saturates outside its working range by design and is excluded); non-trivial = degree >= 3 with a magnitude above 40",
                cases: |t| t.pick(200_000, 5_000_000),
                strategy: wide_strategy,
                check: check_wide,
                health: &[],
            }),
        ],
        assumptions: vec![
            "working range of the float rules: |x| <= 30 (f64), <= 12 (f32); beyond it only the sign/magnitude clauses are checked and the phi rule is not judged".into(),
            "tolerances are first-order error models times 16, see DESIGN.md §4 C04".into(),
            "the real-valued counterpart of the 8-bit min* approximation folds the other inputs in presentation order, as the documented formula does".into(),
        ],
    }
}
