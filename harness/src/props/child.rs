//! Child-process isolation for cases that can abort the process or hang.

use serde_json::Value;
use std::io::{Read, Write};
use std::process::{Command, Stdio};
use std::time::{Duration, Instant};

#[derive(Debug)]
pub enum ChildResult {
    /// child exited; (exit code, parsed last stdout line if it is JSON, stderr tail)
    Exited(i32, Option<Value>, String),
    /// killed by a signal (abort, segfault …)
    Signalled(String),
    TimedOut(Option<Value>, String),
}

pub fn run_child(kind: &str, input: &Value, timeout: Duration) -> ChildResult {
    let exe = std::env::current_exe().expect("current_exe");
    let mut child = Command::new(exe)
        .arg("child")
        .arg(kind)
        .stdin(Stdio::piped())
        .stdout(Stdio::piped())
        .stderr(Stdio::piped())
        .spawn()
        .expect("cannot spawn child process");
    {
        let mut stdin = child.stdin.take().unwrap();
        let _ = stdin.write_all(input.to_string().as_bytes());
    }
    let mut stdout = child.stdout.take().unwrap();
    let mut stderr = child.stderr.take().unwrap();
    let out_t = std::thread::spawn(move || {
        let mut s = String::new();
        let _ = stdout.read_to_string(&mut s);
        s
    });
    let err_t = std::thread::spawn(move || {
        let mut s = Vec::new();
        let _ = stderr.read_to_end(&mut s);
        String::from_utf8_lossy(&s).to_string()
    });
    let start = Instant::now();
    let mut timed_out = false;
    let status = loop {
        match child.try_wait() {
            Ok(Some(st)) => break Some(st),
            Ok(None) => {
                if start.elapsed() > timeout {
                    let _ = child.kill();
                    timed_out = true;
                    break child.wait().ok();
                }
                std::thread::sleep(Duration::from_millis(2));
            }
            Err(_) => break None,
        }
    };
    let out = out_t.join().unwrap_or_default();
    let err = err_t.join().unwrap_or_default();
    let tail: String = err.chars().rev().take(600).collect::<Vec<_>>().into_iter().rev().collect();
    let parsed = out.lines().rev().find_map(|l| serde_json::from_str::<Value>(l).ok());
    if timed_out {
        return ChildResult::TimedOut(parsed, tail);
    }
    match status.and_then(|s| s.code()) {
        Some(code) => ChildResult::Exited(code, parsed, tail),
        None => ChildResult::Signalled(tail),
    }
}

pub fn read_stdin_json() -> Value {
    let mut s = String::new();
    let _ = std::io::stdin().read_to_string(&mut s);
    serde_json::from_str(&s).unwrap_or(Value::Null)
}
