//! Shared generators for decoder inputs: (H, LLR vector, iteration limit).

use crate::common::*;
use proptest::prelude::*;
use serde::{Deserialize, Serialize};

#[derive(Debug, Clone, Serialize, Deserialize)]
pub struct DecCase {
    pub h: Mat,
    pub llrs: Vec<Fx>,
    pub limit: usize,
}

pub fn limit_strategy() -> BoxedStrategy<usize> {
    prop_oneof![
        2 => Just(0usize),
        2 => Just(1usize),
        2 => Just(2usize),
        2 => Just(3usize),
        2 => Just(5usize),
        2 => Just(10usize),
        1 => Just(30usize),
        1 => Just(200usize),
    ]
    .boxed()
}

/// codeword of H chosen by a mask over an own null-space basis
pub fn codeword_of(h: &Mat, mask: u64) -> Vec<u8> {
    let basis = h.to_bits().nullspace();
    let mut c = vec![0u8; h.cols];
    for (i, b) in basis.iter().enumerate() {
        if (mask >> (i % 64)) & 1 == 1 {
            for (x, y) in c.iter_mut().zip(b) {
                *x ^= *y;
            }
        }
    }
    c
}

/// LLR vectors for a given matrix, by class
pub fn llr_vector(h: &Mat) -> BoxedStrategy<Vec<f64>> {
    let n = h.cols;
    let hh = h.clone();
    let hh2 = h.clone();
    let hh3 = h.clone();
    prop_oneof![
        // free components
        4 => proptest::collection::vec(any_llr(), n),
        // noisy codeword: a few sign flips / weak positions
        5 => (any::<u64>(), proptest::collection::vec(0.3f64..6.0, n), proptest::collection::vec(any::<u16>(), 0..=2), 0..3u8)
            .prop_map(move |(mask, mags, flips, scale)| {
                let c = codeword_of(&hh, mask);
                let s = [1.0, 4.0, 0.25][scale as usize];
                let mut v: Vec<f64> = c.iter().zip(&mags).map(|(&b, &m)| if b == 1 { -m * s } else { m * s }).collect();
                for f in flips {
                    let i = crate::engine::idx(f, v.len());
                    v[i] = -v[i] * 0.5;
                }
                v
            }),
        // exact codeword (zero-iteration path), magnitudes from the special catalogue too
        2 => (any::<u64>(), proptest::collection::vec(prop_oneof![3 => 0.01f64..20.0, 1 => special_llr().prop_map(|x| x.abs())], n))
            .prop_map(move |(mask, mags)| {
                let c = codeword_of(&hh2, mask);
                c.iter().zip(&mags).map(|(&b, &m)| if b == 1 { -m } else if m == 0.0 { 1.0 } else { m }).collect()
            }),
        // all specials
        2 => proptest::collection::vec(special_llr(), n),
        // punctured block of exact zeros inside a noisy codeword
        2 => (any::<u64>(), proptest::collection::vec(0.5f64..8.0, n), any::<u16>(), any::<u16>())
            .prop_map(move |(mask, mags, a, b)| {
                let c = codeword_of(&hh3, mask);
                let mut v: Vec<f64> = c.iter().zip(&mags).map(|(&b, &m)| if b == 1 { -m } else { m }).collect();
                let start = crate::engine::idx(a, v.len());
                let len = 1 + crate::engine::idx(b, (v.len() - start).max(1));
                for x in v.iter_mut().skip(start).take(len) {
                    *x = 0.0;
                }
                v
            }),
        // extremes
        1 => proptest::collection::vec(prop_oneof![Just(1e30), Just(-1e30), Just(0.0), Just(-0.0), Just(5e-324), -1.0f64..1.0], n),
    ]
    .boxed()
}

pub fn dec_case(max_r: usize, max_n: usize) -> BoxedStrategy<DecCase> {
    decoder_matrix(max_r, max_n)
        .prop_flat_map(|h| {
            let l = llr_vector(&h);
            (Just(h), l, limit_strategy())
        })
        .prop_map(|(h, llrs, limit)| DecCase {
            h,
            llrs: llrs.into_iter().map(Fx).collect(),
            limit,
        })
        .boxed()
}

pub fn sign_pattern(llrs: &[f64]) -> Vec<u8> {
    llrs.iter().map(|&x| u8::from(x <= 0.0)).collect()
}
