//! C12 — the BER chain hands the decoder correctly ordered, correctly scaled LLRs.
//! A checker-supplied DecoderFactory records every LLR vector the engine presents.

use super::c14::TABLE;
use crate::common::*;
use crate::engine::*;
use crate::ensure;
use ldpc_toolbox::decoder::{DecoderOutput, LdpcDecoder, factory::DecoderFactory};
use ldpc_toolbox::simulation::ber::BerTest;
use ldpc_toolbox::simulation::factory::{BerTestBuilder, Modulation};
use ldpc_toolbox::simulation::modulation::{Bpsk, Psk8};
use ldpc_toolbox::sparse::SparseMatrix;
use proptest::prelude::*;
use serde::{Deserialize, Serialize};
use std::collections::BTreeSet;
use std::sync::{Arc, Mutex};

/// What the probe has seen. Frames are sorted, as they arrive, by their LLR scale (mean magnitude of
/// the non-zero LLRs) into the Eb/N0 point whose expected scale is nearest on a logarithmic axis (the
/// points of one run differ by a factor of four or more in scale); at most `cap` frames are kept per
/// point, all are counted.
#[derive(Debug, Default)]
pub struct ProbeState {
    /// expected mean |LLR| per requested point
    expected: Vec<f64>,
    cap: usize,
    kept: Vec<Vec<Vec<f64>>>,
    seen: Vec<u64>,
    /// frames whose scale is more than a factor two away from every expected scale (kept: first 8)
    stray: Vec<Vec<f64>>,
    stray_seen: u64,
    /// how many of the first (systematic) bits the probe decoder flips in its answer
    flips: usize,
}

type Frames = Arc<Mutex<ProbeState>>;

fn llr_scale(llrs: &[f64]) -> f64 {
    let (mut s, mut c) = (0.0, 0usize);
    for x in llrs {
        if *x != 0.0 && x.is_finite() {
            s += x.abs();
            c += 1;
        }
    }
    if c == 0 { 0.0 } else { s / c as f64 }
}

#[derive(Clone, Debug)]
struct ProbeFactory(Frames);

impl std::fmt::Display for ProbeFactory {
    fn fmt(&self, f: &mut std::fmt::Formatter<'_>) -> std::fmt::Result {
        write!(f, "Probe")
    }
}

#[derive(Debug)]
struct ProbeDecoder(Frames);

impl LdpcDecoder for ProbeDecoder {
    fn decode(&mut self, llrs: &[f64], max: usize) -> Result<DecoderOutput, DecoderOutput> {
        {
            let sc = llr_scale(llrs);
            let mut g = self.0.lock().unwrap();
            let mut best: Option<(usize, f64)> = None;
            for (i, e) in g.expected.iter().enumerate() {
                let d = if sc > 0.0 { (sc / e).ln().abs() } else { f64::INFINITY };
                if best.is_none_or(|b| d < b.1) {
                    best = Some((i, d));
                }
            }
            if let Some((i, d)) = best {
                // a frame of very few symbols can legitimately be off its point's scale by more than
                // a factor two (|1 + w| < 1/2 has probability 2e-5 per BPSK symbol at sigma 0.12), so
                // such frames are only counted; they are judged with the point they are nearest to
                if d > std::f64::consts::LN_2 {
                    g.stray_seen += 1;
                    if g.stray.len() < 8 {
                        g.stray.push(llrs.to_vec());
                    }
                }
                g.seen[i] += 1;
                if g.kept[i].len() < g.cap {
                    g.kept[i].push(llrs.to_vec());
                }
            } else {
                g.stray_seen += 1;
            }
        }
        // hard decision with the first bit(s) flipped: one systematic bit error per frame, or, when an
        // outer-code threshold t is set, t + 1 of them (every frame is a frame error of the outer code too)
        let flips = self.0.lock().unwrap().flips.max(1);
        let mut cw: Vec<u8> = llrs.iter().map(|&x| u8::from(x <= 0.0)).collect();
        for b in cw.iter_mut().take(flips) {
            *b ^= 1;
        }
        Err(DecoderOutput { codeword: cw, iterations: max })
    }
}

impl DecoderFactory for ProbeFactory {
    fn build_decoder(&self, _h: SparseMatrix) -> Box<dyn LdpcDecoder> {
        Box::new(ProbeDecoder(self.0.clone()))
    }
}

// ---------------------------------------------------------------------------
// 8PSK LLR function with Jacobian, and its inversion (Gauss-Newton)

fn llr_jac(z: (f64, f64)) -> ([f64; 3], [[f64; 2]; 3]) {
    let pts: Vec<(f64, f64, [u8; 3])> = TABLE.iter().map(|t| (t.1.cos(), t.1.sin(), t.0)).collect();
    let d: Vec<f64> = pts.iter().map(|s| z.0 * s.0 + z.1 * s.1).collect();
    let mut l = [0.0; 3];
    let mut j = [[0.0; 2]; 3];
    for b in 0..3 {
        for val in 0..2u8 {
            let ix: Vec<usize> = (0..8).filter(|&i| pts[i].2[b] == val).collect();
            let m = ix.iter().map(|&i| d[i]).fold(f64::NEG_INFINITY, f64::max);
            let w: Vec<f64> = ix.iter().map(|&i| (d[i] - m).exp()).collect();
            let sw: f64 = w.iter().sum();
            let sgn = if val == 0 { 1.0 } else { -1.0 };
            l[b] += sgn * (m + sw.ln());
            j[b][0] += sgn * ix.iter().zip(&w).map(|(&i, wi)| wi * pts[i].0).sum::<f64>() / sw;
            j[b][1] += sgn * ix.iter().zip(&w).map(|(&i, wi)| wi * pts[i].1).sum::<f64>() / sw;
        }
    }
    (l, j)
}

/// z = y / sigma^2 such that the exact 8PSK LLRs of z equal `target`
pub fn invert(target: [f64; 3]) -> Option<(f64, f64)> {
    let bits = [u8::from(target[0] <= 0.0), u8::from(target[1] <= 0.0), u8::from(target[2] <= 0.0)];
    let a = TABLE.iter().find(|t| t.0 == bits).unwrap().1;
    let scale = target.iter().map(|x| x.abs()).fold(0.0, f64::max).max(1e-3);
    let mut z = (a.cos() * scale, a.sin() * scale);
    let tn = (target[0] * target[0] + target[1] * target[1] + target[2] * target[2]).sqrt();
    for _ in 0..100 {
        let (l, j) = llr_jac(z);
        let r = [l[0] - target[0], l[1] - target[1], l[2] - target[2]];
        let rn = (r[0] * r[0] + r[1] * r[1] + r[2] * r[2]).sqrt();
        if rn <= 1e-10 * (1.0 + tn) {
            return Some(z);
        }
        let a = j[0][0] * j[0][0] + j[1][0] * j[1][0] + j[2][0] * j[2][0];
        let b = j[0][0] * j[0][1] + j[1][0] * j[1][1] + j[2][0] * j[2][1];
        let d = j[0][1] * j[0][1] + j[1][1] * j[1][1] + j[2][1] * j[2][1];
        let g0 = j[0][0] * r[0] + j[1][0] * r[1] + j[2][0] * r[2];
        let g1 = j[0][1] * r[0] + j[1][1] * r[1] + j[2][1] * r[2];
        let det = a * d - b * b;
        if det.abs() < 1e-300 {
            return None;
        }
        let dz0 = -(d * g0 - b * g1) / det;
        let dz1 = -(-b * g0 + a * g1) / det;
        let mut t = 1.0;
        loop {
            let zn = (z.0 + t * dz0, z.1 + t * dz1);
            let (ln, _) = llr_jac(zn);
            let rnn = ((ln[0] - target[0]).powi(2) + (ln[1] - target[1]).powi(2) + (ln[2] - target[2]).powi(2)).sqrt();
            if rnn < rn || t < 1e-6 {
                z = zn;
                break;
            }
            t *= 0.5;
        }
    }
    None
}

// ---------------------------------------------------------------------------
// case

#[derive(Debug, Clone, Serialize, Deserialize)]
pub struct Case {
    pub h: Mat,
    pub pattern: Option<Vec<bool>>,
    pub interleaver: Option<isize>,
    pub psk8: bool,
    pub sigma_target: Fx,
    pub via_builder: bool,
    /// Eb/N0 points of the run, in order: entry k stands for an expected noise sigma of
    /// sigma_target / 2^k (empty = the single point k = 0)
    #[serde(default)]
    pub points: Vec<u8>,
}

/// systematic H: [H0 | staircase] or [H0 | unit lower triangular], every row of H0 non-empty
pub fn systematic_h(r: usize, n: usize, h0: &[bool], tail: &[bool], staircase: bool, fix: &[u16]) -> Mat {
    let k = n - r;
    let mut m = Mat::new(r, n);
    for i in 0..r {
        let mut cnt = 0;
        for j in 0..k {
            if h0[(i * k + j) % h0.len().max(1)] {
                m.ones.push((i, j));
                cnt += 1;
            }
        }
        if cnt == 0 && k > 0 {
            m.ones.push((i, idx(fix[i % fix.len()], k)));
        }
    }
    if staircase {
        m.ones.push((0, k));
        for j in 1..r {
            m.ones.push((j, k + j));
            m.ones.push((j, k + j - 1));
        }
    } else {
        // unit lower triangular; in a quarter of the cases its columns are permuted (a permutation derived
        // from `fix`), and in half of these the triangle is left empty: the parity part is then a
        // permutation matrix, with cycles of any length
        let sel = fix.first().copied().unwrap_or(1) % 8;
        let mut perm: Vec<usize> = (0..r).collect();
        if sel < 2 {
            perm.sort_by_key(|&i| (fix[(i + 1) % fix.len()], i));
        }
        for i in 0..r {
            m.ones.push((i, k + perm[i]));
            for j in 0..i {
                if sel != 0 && tail[(i * r + j) % tail.len().max(1)] {
                    m.ones.push((i, k + perm[j]));
                }
            }
        }
    }
    m
}

pub fn strategy(_t: Tier) -> BoxedStrategy<Case> {
    (prop_oneof![3 => 1usize..=5, 2 => 6usize..=12], 1usize..=4, any::<u16>(), any::<bool>(), any::<bool>(), 0..4u8, prop::bool::weighted(0.2))
        .prop_flat_map(|(p, bsm, rraw, staircase, psk8, patkind, odd)| {
            // block size multiple of 3: every transmitted length is a multiple of 3 (long patterns get small blocks).
            // `odd`: block size and pattern length not multiples of 3, so that the codeword length is not
            // one either; with 8PSK the pattern then keeps 3, 6 or 9 blocks (the transmitted length is a
            // multiple of 3 although the codeword length is not)
            let (p, bs) = if odd {
                let mut p = p.max(4);
                if p % 3 == 0 {
                    p += 1;
                }
                (p, [1usize, 2, 4, 5][bsm - 1].min(if p > 6 { 2 } else { 5 }))
            } else {
                (p, 3 * if p > 6 { bsm.min(2) } else { bsm })
            };
            let n = p * bs;
            let r = 2 + idx(rraw, (n - 2).min(11)); // 2 <= r <= min(12, n-1)
            let pattern: BoxedStrategy<Option<Vec<bool>>> = match patkind {
                _ if odd && psk8 => {
                    let t = 3 * ((p - 1) / 3);
                    Just((0..p).map(|i| i < t).collect::<Vec<bool>>()).prop_shuffle().prop_map(Some).boxed()
                }
                0 => Just(None).boxed(),
                1 if p == 5 => Just(Some(vec![true, true, true, true, false])).boxed(),
                _ => (proptest::collection::vec(any::<bool>(), p), any::<u16>())
                    .prop_map(|(mut v, a)| {
                        if !v.iter().any(|&b| b) {
                            let i = idx(a, v.len());
                            v[i] = true;
                        }
                        Some(v)
                    })
                    .boxed(),
            };
            (
                Just((n, r, bs, staircase, psk8)),
                pattern,
                proptest::collection::vec(prop::bool::weighted(0.35), r * (n - r).max(1)),
                proptest::collection::vec(prop::bool::weighted(0.3), r * r),
                proptest::collection::vec(any::<u16>(), r),
                (0..3u8, any::<u16>(), 0.0f64..1.0, any::<bool>()),
                // one Eb/N0 point, or two or three in any order (sigma halves from one level to the next)
                prop_oneof![4 => Just(vec![0u8]), 1 => Just(vec![0u8, 1]), 1 => Just(vec![1u8, 0]), 1 => Just(vec![2u8, 0]), 1 => Just(vec![0u8, 2, 1]), 1 => Just(vec![1u8, 2, 0])],
            )
        })
        .prop_map(|((n, r, bs, staircase, psk8), pattern, h0, tail, fix, (ikind, ipick, sfrac, via_builder), points)| {
            let kept = pattern.as_ref().map_or(n, |v| bs * v.iter().filter(|&&b| b).count());
            let divisors: Vec<usize> = (1..=kept).filter(|d| kept % d == 0).collect();
            let d = divisors[idx(ipick, divisors.len())] as isize;
            let interleaver = match ikind {
                0 => None,
                1 => Some(d),
                _ => Some(-d),
            };
            // noise levels at which a hard decision of a recorded LLR differs from the transmitted bit with
            // probability < 1e-14 per sample (BPSK: Q(1/0.13) = 7e-15; 8PSK: 2 Q(sin(pi/8)/0.048) = 2e-15),
            // so that even the thorough tier (2.5e8 samples) cannot plausibly see a channel error
            let sigma_target = if psk8 { 0.025 + 0.023 * sfrac } else { 0.08 + 0.05 * sfrac };
            Case { h: systematic_h(r, n, &h0, &tail, staircase, &fix), pattern, interleaver, psk8, sigma_target: Fx(sigma_target), via_builder, points }
        })
        .prop_flat_map(|c| (shuffled(Just(c.h.clone())), Just(c)))
        .prop_map(|(h, mut c)| {
            c.h = h;
            c
        })
        .boxed()
}

/// records two 64-bit digests of a frame in a process-wide set; false if the same frame (bit for bit)
/// was recorded before
fn note_frame(f: &[f64]) -> bool {
    let (mut d1, mut d2) = (0x243f_6a88_85a3_08d3u64 ^ f.len() as u64, 0x1319_8a2e_0370_7344u64);
    for x in f {
        let w = x.to_bits();
        d1 = splitmix(d1 ^ w);
        d2 = splitmix(d2.rotate_left(7) ^ w ^ 0x9e37);
    }
    static EARLIER: std::sync::Mutex<Option<std::collections::HashSet<(u64, u64)>>> = std::sync::Mutex::new(None);
    let mut g = EARLIER.lock().unwrap_or_else(|e| e.into_inner());
    g.get_or_insert_with(Default::default).insert((d1, d2))
}

fn zcheck(name: &str, val: f64, expect: f64, sd: f64, p: &mut Probe, ctx: &str) -> Check {
    let z = (val - expect).abs() / sd;
    p.metric("z_max", z);
    ensure!(z <= 7.0, "noise-statistics", "{name}: {val:e} vs expected {expect:e} (z = {z:.1} > 7) {ctx}");
    Ok(())
}

/// expected mean |LLR| of a frame at noise level sigma (own exact LLR functions on noiseless points)
fn expected_scale(psk8: bool, sigma: f64) -> f64 {
    if psk8 {
        let mut s = 0.0;
        for t in TABLE.iter() {
            for b in 0..3 {
                s += super::c14::own_psk8_llr(num_complex::Complex::new(t.1.cos(), t.1.sin()), sigma, b).abs();
            }
        }
        s / 24.0
    } else {
        2.0 / (sigma * sigma)
    }
}

pub fn check(c: &Case, p: &mut Probe) -> Check {
    let h = c.h.to_sparse();
    let (r, n) = (c.h.rows, c.h.cols);
    let k = n - r;
    let kept = c.pattern.as_ref().map_or(n, |v| n / v.len() * v.iter().filter(|&&b| b).count());
    let bps = if c.psk8 { 3.0 } else { 1.0 };
    let rate = k as f64 / kept as f64;
    let levels: Vec<u8> = if c.points.is_empty() { vec![0] } else { c.points.clone() };
    let npts = levels.len();
    // per point: the Eb/N0 handed to the engine (f32 dB) and the per-dimension sigma it must produce
    // (rate counted after puncturing, bits per symbol of the modulation)
    let mut ebn0s_db: Vec<f32> = Vec::new();
    let mut sigmas: Vec<f64> = Vec::new();
    for &lv in &levels {
        let st = c.sigma_target.0 / f64::from(1u32 << lv);
        let ebn0 = 0.5 / (st * st * rate * bps);
        let db = (10.0 * ebn0.log10()) as f32;
        ebn0s_db.push(db);
        sigmas.push((0.5 / (rate * bps * 10f64.powf(0.1 * f64::from(db)))).sqrt());
    }
    let symbols_per_frame = if c.psk8 { kept / 3 } else { kept };
    let want_samples = if npts == 1 { 6000usize } else { 4000 };
    let nerr = (want_samples.div_ceil(symbols_per_frame)).max(20) as u64;
    // outer-code accounting threshold (the BCH statistics flag): 0 in three fifths of the cases, else 1
    // or 2 (never so large that the probe could not produce t + 1 systematic bit errors); it changes
    // what is counted, never what is transmitted
    let bch: u64 = ([0u64, 0, 0, 1, 2][(c.h.ones.len() + n) % 5]).min(k.saturating_sub(1) as u64);
    let state = ProbeState { flips: bch as usize + 1, expected: sigmas.iter().map(|&s| expected_scale(c.psk8, s)).collect(), cap: 3 * nerr as usize + 64, kept: vec![Vec::new(); npts], seen: vec![0; npts], stray: Vec::new(), stray_seen: 0 };
    let frames: Frames = Arc::new(Mutex::new(state));
    let probe = ProbeFactory(frames.clone());
    let ctx0 = format!("[{}x{} pattern {:?} interleaver {:?} {} Eb/N0 points {ebn0s_db:?} dB, expected sigmas {sigmas:.4?}]", r, n, c.pattern, c.interleaver, if c.psk8 { "8PSK" } else { "BPSK" });
    let modulation = if c.psk8 { Modulation::Psk8 } else { Modulation::Bpsk };
    let run = || -> Result<(Vec<ldpc_toolbox::simulation::ber::Statistics>, (usize, usize, usize, f64)), String> {
        if c.via_builder {
            let b = BerTestBuilder { h: h.clone(), decoder_implementation: probe.clone(), modulation, puncturing_pattern: c.pattern.as_deref(), interleaving_columns: c.interleaver, max_frame_errors: nerr, max_iterations: 5, ebn0s_db: &ebn0s_db, reporter: None, bch_max_errors: bch }.build().map_err(|e| e.to_string())?;
            let sizes = (b.k(), b.n_cw(), b.n(), b.rate());
            Ok((b.run().map_err(|e| e.to_string())?, sizes))
        } else if c.psk8 {
            use ldpc_toolbox::simulation::factory::Ber;
            let b = BerTest::<Psk8, _>::new(h.clone(), probe.clone(), c.pattern.as_deref(), c.interleaver, nerr, 5, &ebn0s_db, None, bch).map_err(|e| e.to_string())?;
            let sizes = (b.k(), b.n_cw(), b.n(), b.rate());
            Ok((b.run().map_err(|e| e.to_string())?, sizes))
        } else {
            use ldpc_toolbox::simulation::factory::Ber;
            let b = BerTest::<Bpsk, _>::new(h.clone(), probe.clone(), c.pattern.as_deref(), c.interleaver, nerr, 5, &ebn0s_db, None, bch).map_err(|e| e.to_string())?;
            let sizes = (b.k(), b.n_cw(), b.n(), b.rate());
            Ok((b.run().map_err(|e| e.to_string())?, sizes))
        }
    };
    let (stats, sizes) = guarded(run).map_err(|e| Fail::new("panic", format!("BER run panicked: {e} {ctx0}")))?.map_err(|e| Fail::new("run-error", format!("BER run failed: {e} {ctx0}")))?;
    ensure!(sizes.0 == k && sizes.1 == n && sizes.2 == kept, "reported-sizes", "reported k = {}, N_cw = {}, N = {}; expected {k}, {n}, {kept} {ctx0}", sizes.0, sizes.1, sizes.2);
    ensure!((sizes.3 - rate).abs() <= 1e-15, "reported-rate", "reported rate {} but k/N after puncturing is {rate} {ctx0}", sizes.3);
    ensure!(stats.len() == npts, "stats", "{npts} Eb/N0 point(s) requested, {} statistics entries returned {ctx0}", stats.len());
    let st = std::mem::take(&mut *frames.lock().unwrap());
    // every frame the engine decoded carried the LLR scale of one of the requested points
    // the bulk of the frames carries the LLR scale of one of the requested points (single short frames
    // may stray, see the probe; a wrong scale on all frames of a point cannot)
    let total_seen: u64 = st.seen.iter().sum::<u64>() + 1;
    p.metric("stray_frame_share", st.stray_seen as f64 / total_seen as f64);
    if st.stray_seen * 2 > total_seen {
        let f = st.stray.first().cloned().unwrap_or_default();
        return Err(Fail::new("llr-scale", format!("{} of {} frames reached the decoder with a mean |LLR| more than a factor 2 away from the scale of every requested Eb/N0 point (e.g. {:.4e}; requested scales {:.4?}) {ctx0}", st.stray_seen, total_seen - 1, llr_scale(&f), st.expected)));
    }
    for i in 0..npts {
        ensure!(st.seen[i] >= stats[i].num_frames.min(1), "no-frames", "the statistics report {} frames for Eb/N0 {} dB but no frame with the LLR scale of that point (mean |LLR| ~ {:.4e}) reached the decoder (frames seen per point: {:?}) {ctx0}", stats[i].num_frames, ebn0s_db[i], st.expected[i], st.seen);
    }
    ensure!(st.seen.iter().sum::<u64>() > 0, "no-frames", "no frame reached the decoder {ctx0}");
    let punct: Vec<bool> = match &c.pattern {
        None => vec![false; n],
        Some(pt) => {
            let bs = n / pt.len();
            (0..n).map(|i| !pt[i / bs]).collect()
        }
    };
    // transmitted order -> codeword position
    let kept_pos: Vec<usize> = (0..n).filter(|&i| !punct[i]).collect();
    let order_for = |cols: isize| -> Vec<usize> {
        let cc = cols.unsigned_abs();
        let rr = kept / cc;
        (0..kept)
            .map(|o| {
                let (rw, cl) = (o / cc, o % cc);
                let cl = if cols < 0 { cc - 1 - cl } else { cl };
                kept_pos[cl * rr + rw]
            })
            .collect()
    };
    let mut tx_to_cw: Vec<usize> = match c.interleaver {
        None => kept_pos.clone(),
        Some(cols) => order_for(cols),
    };
    // Which reading direction a sign of the column count selects is the interleaver's business
    // (C15) and is not observable at the decoder; for 8PSK the symbol grouping is therefore
    // taken from the data: if the requested direction does not group the first frame into
    // invertible LLR triples, the opposite direction is tried before anything is judged.
    if let (true, Some(cols), Some(f0)) = (c.psk8, c.interleaver, st.kept.iter().find_map(|v| v.first())) {
        let ok = |order: &Vec<usize>| (0..kept / 3).filter(|&s| invert([f0[order[3 * s]], f0[order[3 * s + 1]], f0[order[3 * s + 2]]]).is_some()).count() * 10 >= (kept / 3) * 9;
        if f0.len() == n && !ok(&tx_to_cw) {
            let alt = order_for(-cols);
            if ok(&alt) {
                tx_to_cw = alt;
                p.class("symbol-grouping-opposite-direction");
            }
        }
    }
    // own systematic re-encoding: for an exact staircase tail the accumulator (linear time, used for the
    // frames of more than 2^16 bits), otherwise a dense GF(2) solve with the last r columns
    let hset = c.h.set();
    let stair = hset.iter().filter(|e| e.1 >= k).count() == 2 * r - 1 && (0..r).all(|i| hset.contains(&(i, k + i)) && (i == 0 || hset.contains(&(i, k + i - 1))));
    let tail = if stair { None } else { Some(c.h.to_bits().submatrix_cols(k, n)) };
    let info_punctured = punct[..k].iter().any(|&b| b);
    let unknown: Vec<usize> = (0..n).filter(|&i| punct[i]).collect();
    let mut seen_frames = std::collections::HashSet::new();
    for (pt, frames) in st.kept.iter().enumerate() {
        let sigma_e = sigmas[pt];
        let ctx = format!("[point {pt}: Eb/N0 {} dB, expected sigma {sigma_e:.4}] {ctx0}", ebn0s_db[pt]);
        let (mut sw, mut sw2) = ([0.0f64; 2], [0.0f64; 2]);
        let (mut sws, mut cross, mut lag) = (0.0f64, 0.0f64, 0.0f64);
        let mut prev: Option<f64> = None;
        let mut cnt = 0usize;
        let mut nonconv = 0usize;
        // per transmitted position (8PSK: per symbol): frames in which the recovered noise is (all but) absent
        let mut still = vec![0u32; kept];
        // correlation of the noise with itself at longer lags inside a frame (re components for 8PSK)
        const LAGS: [usize; 17] = [2, 3, 4, 8, 16, 32, 64, 128, 256, 512, 1024, 2048, 4096, 8192, 16_384, 32_768, 65_536];
        let mut lag_sum = [0.0f64; 17];
        let mut lag_cnt = [0u64; 17];
        let mut wf: Vec<f64> = Vec::new();
        for f in frames.iter() {
            ensure!(f.len() == n, "frame-length", "decoder received {} LLRs, codeword length is {n} {ctx}", f.len());
            for i in 0..n {
                if punct[i] {
                    ensure!(f[i].to_bits() == 0, "punctured-not-zero", "LLR at punctured position {i} is {:?}, not exactly +0.0 {ctx}", f[i]);
                } else {
                    ensure!(f[i].is_finite() && f[i] != 0.0, "unpunctured-degenerate", "LLR at transmitted position {i} is {:?} {ctx}", f[i]);
                }
            }
            let bits: Vec<u8> = f.iter().map(|&x| u8::from(x <= 0.0)).collect();
            if !info_punctured {
                // the signs of the transmitted positions are those of the systematic codeword of the first k bits
                let mut rhs = vec![0u8; r];
                for &(i, j) in &hset {
                    if j < k {
                        rhs[i] ^= bits[j];
                    }
                }
                let parity = match &tail {
                    Some(t) => t.solve(&rhs).ok_or_else(|| Fail::new("harness", "tail not invertible".to_string()))?,
                    None => {
                        let mut acc = 0u8;
                        rhs.iter().map(|&b| {
                            acc ^= b;
                            acc
                        }).collect()
                    }
                };
                for j in 0..r {
                    if !punct[k + j] {
                        ensure!(bits[k + j] == parity[j], "not-systematic-codeword", "frame signs are not the systematic codeword of their first k bits: parity position {} has sign bit {} but the encoder gives {} {ctx}", k + j, bits[k + j], parity[j]);
                    }
                }
            } else {
                // own GF(2) solve for the punctured unknowns
                let mut a = BitMat::zero(r, unknown.len());
                let mut rhs = vec![0u8; r];
                for &(i, j) in &hset {
                    match unknown.iter().position(|&u| u == j) {
                        Some(q) => a.flip(i, q),
                        None => rhs[i] ^= bits[j],
                    }
                }
                ensure!(a.solve(&rhs).is_some(), "not-a-codeword", "the signs of the transmitted positions do not extend to any codeword of H {ctx}");
            }
            // noise recovery in transmitted order
            wf.clear();
            if c.psk8 {
                for s in 0..kept / 3 {
                    let l = [f[tx_to_cw[3 * s]], f[tx_to_cw[3 * s + 1]], f[tx_to_cw[3 * s + 2]]];
                    let Some(z) = invert(l) else {
                        nonconv += 1;
                        // LLR triples that are not the LLRs of any received sample: the frame is not in
                        // transmitted symbol order (fail fast, the inversion of garbage is slow)
                        ensure!(nonconv < 30, "inversion", "{nonconv} 8PSK LLR triples (of {} examined) are not the LLRs of any received sample: frames are not grouped in transmitted symbol order {ctx}", cnt + nonconv);
                        continue;
                    };
                    let y = (z.0 * sigma_e * sigma_e, z.1 * sigma_e * sigma_e);
                    let b = [u8::from(l[0] <= 0.0), u8::from(l[1] <= 0.0), u8::from(l[2] <= 0.0)];
                    let a = TABLE.iter().find(|t| t.0 == b).unwrap().1;
                    let w = [y.0 - a.cos(), y.1 - a.sin()];
                    if w[0].abs() < 1e-4 * sigma_e && w[1].abs() < 1e-4 * sigma_e {
                        still[s] += 1;
                    }
                    wf.push(w[0]);
                    sw[0] += w[0];
                    sw[1] += w[1];
                    sw2[0] += w[0] * w[0];
                    sw2[1] += w[1] * w[1];
                    sws += w[0] * a.cos() + w[1] * a.sin();
                    cross += w[0] * w[1];
                    if let Some(pv) = prev {
                        lag += pv * w[0];
                    }
                    prev = Some(w[1]);
                    cnt += 1;
                }
            } else {
                for t in 0..kept {
                    let l = f[tx_to_cw[t]];
                    let y = -l / 2.0 * sigma_e * sigma_e;
                    let s = if l <= 0.0 { 1.0 } else { -1.0 };
                    let w = y - s;
                    if w.abs() < 1e-4 * sigma_e {
                        still[t] += 1;
                    }
                    wf.push(w);
                    sw[0] += w;
                    sw2[0] += w * w;
                    sws += w * s;
                    if let Some(pv) = prev {
                        lag += pv * w;
                    }
                    prev = Some(w);
                    cnt += 1;
                }
            }
            for (li, &l) in LAGS.iter().enumerate() {
                if wf.len() > l {
                    lag_sum[li] += wf[..wf.len() - l].iter().zip(&wf[l..]).map(|(a, b)| a * b).sum::<f64>();
                    lag_cnt[li] += (wf.len() - l) as u64;
                }
            }
            // independent noise between frames, workers and points: no two recorded frames may be
            // bit-identical (a shared or re-seeded generator would repeat whole frames)
            let key: Vec<u64> = f.iter().map(|x| x.to_bits()).collect();
            // ... nor may a frame repeat one that an earlier simulation of this process produced (a
            // generator seeded once per process would replay): two 64-bit digests of every frame are
            // kept for the lifetime of the process
            let fresh = note_frame(f);
            ensure!(seen_frames.insert(key), "repeated-frame", "two frames handed to the decoder are bit-identical: messages/noise are not drawn independently per frame and worker {ctx}");
            ensure!(fresh, "repeated-frame-across-runs", "a frame handed to the decoder is bit-identical to a frame of an earlier simulation run in this process: messages/noise are replayed from run to run {ctx}");
        }
        // a Gaussian sample is this close to zero with probability 8e-5 (both components: 6e-9); five
        // such frames at one position, and at least half of all frames, is not chance
        if let Some((t, &q)) = still.iter().enumerate().max_by_key(|e| *e.1) {
            ensure!(q < 5 || (q as usize) * 2 < frames.len(), "noise-absent-at-a-position", "transmitted position {t} (of {kept}) carries no noise in {q} of {} frames: the received sample is the transmitted symbol {ctx}", frames.len());
        }
        p.metric("nonconverged_inversions", nonconv as f64);
        ensure!(nonconv * 1000 <= cnt.max(1), "inversion", "{nonconv} of {cnt} 8PSK LLR triples could not be inverted to a received sample {ctx}");
        p.inner += frames.len() as u64;
        if cnt >= 3500 {
            p.class("statistics-evaluated");
            let nn = cnt as f64;
            let dims = if c.psk8 { 2 } else { 1 };
            for d in 0..dims {
                zcheck("noise mean", sw[d] / nn, 0.0, sigma_e / nn.sqrt(), p, &ctx)?;
                // Wilson-Hilferty normalisation of the chi-square statistic
                let s = sw2[d] / (sigma_e * sigma_e);
                let wh = ((s / nn).cbrt() - (1.0 - 2.0 / (9.0 * nn))) / (2.0 / (9.0 * nn)).sqrt();
                zcheck("noise variance (Wilson-Hilferty z)", wh, 0.0, 1.0, p, &ctx)?;
            }
            zcheck("scale <w,s>", sws / nn, 0.0, sigma_e / nn.sqrt(), p, &ctx)?;
            zcheck("lag-1 autocorrelation", lag / nn / (sigma_e * sigma_e), 0.0, 1.0 / nn.sqrt(), p, &ctx)?;
            for (li, &l) in LAGS.iter().enumerate() {
                if lag_cnt[li] >= 3500 {
                    let m = lag_cnt[li] as f64;
                    zcheck(&format!("autocorrelation at lag {l} within a frame"), lag_sum[li] / m / (sigma_e * sigma_e), 0.0, 1.0 / m.sqrt(), p, &ctx)?;
                }
            }
            if c.psk8 {
                zcheck("re/im correlation", cross / nn / (sigma_e * sigma_e), 0.0, 1.0 / nn.sqrt(), p, &ctx)?;
            }
        }
    }
    // one case in eight: the same configuration is simulated a second time in this process, by a new
    // BerTest object; none of its frames may repeat a frame of the first run (or of any earlier run)
    if (c.h.ones.len() + n) % 8 == 3 {
        let state = ProbeState { flips: bch as usize + 1, expected: sigmas.iter().map(|&s| expected_scale(c.psk8, s)).collect(), cap: 48, kept: vec![Vec::new(); npts], seen: vec![0; npts], stray: Vec::new(), stray_seen: 0 };
        *frames.lock().unwrap() = state;
        let _ = guarded(run).map_err(|e| Fail::new("panic", format!("second BER run of the same configuration panicked: {e} {ctx0}")))?.map_err(|e| Fail::new("run-error", format!("second BER run of the same configuration failed: {e} {ctx0}")))?;
        let st2 = std::mem::take(&mut *frames.lock().unwrap());
        for f in st2.kept.iter().flatten().chain(st2.stray.iter()) {
            ensure!(note_frame(f), "repeated-frame-across-runs", "a frame of a second simulation of the same configuration is bit-identical to a frame of an earlier simulation in this process: messages/noise are replayed from run to run {ctx0}");
            p.inner += 1;
        }
        p.class("same-configuration-simulated-twice");
    }
    let has_p = c.pattern.as_ref().is_some_and(|v| v.iter().any(|&b| !b));
    let has_i = c.interleaver.is_some_and(|x| x.unsigned_abs() > 1);
    p.class_if(has_p && has_i, "puncturing+interleaving");
    p.class_if(c.psk8, "8PSK");
    p.class_if(c.interleaver.is_some_and(|x| x < 0), "backward-interleaver");
    p.class_if(info_punctured, "information-block-punctured");
    p.class_if(npts >= 2, "several-ebn0-points");
    p.class_if(bch > 0, "outer-code-threshold-set");
    p.class_if(n % 3 != 0, "codeword-length-not-multiple-of-3");
    if (has_p && has_i) || (c.psk8 && (has_p || has_i)) {
        p.nontrivial();
    }
    Ok(())
}

/// frames longer than 2^16 bits (longer than any code the toolbox generates): staircase codes with
/// a weight-3 message part, interleaver present in every case
fn long_cases(_t: Tier) -> Vec<Case> {
    let code = |r: usize, n: usize| -> Mat {
        let k = n - r;
        let mut m = Mat::new(r, n);
        let mut seen = BTreeSet::new();
        for j in 0..k {
            for (a, b) in [(1usize, 0usize), (7, 3), (13, 11)] {
                let e = ((a * j + b + j / r) % r, j);
                if seen.insert(e) {
                    m.ones.push(e);
                }
            }
        }
        m.ones.push((0, k));
        for i in 1..r {
            m.ones.push((i, k + i));
            m.ones.push((i, k + i - 1));
        }
        m
    };
    vec![
        Case { h: code(6_000, 66_000), pattern: None, interleaver: Some(3), psk8: false, sigma_target: Fx(0.1), via_builder: false, points: vec![] },
        Case { h: code(6_000, 66_003), pattern: None, interleaver: Some(-21), psk8: true, sigma_target: Fx(0.04), via_builder: true, points: vec![] },
        Case { h: code(24_000, 84_000), pattern: Some(vec![true, true, true, true, true, false, true]), interleaver: Some(4), psk8: true, sigma_target: Fx(0.04), via_builder: false, points: vec![] },
        Case { h: code(24_000, 84_000), pattern: Some(vec![true, true, true, true, true, false, true]), interleaver: Some(-8), psk8: false, sigma_target: Fx(0.1), via_builder: true, points: vec![0, 1] },
    ]
}

/// a noise-free channel (Eb/N0 = +infinity, a legal f32): BPSK LLRs are then infinite, and they
/// still carry the signs of the codeword (an infinite LLR is a certain bit, not an undefined one)
fn noiseless_cases(_t: Tier) -> Vec<u8> {
    vec![0, 1, 2, 3]
}

fn check_noiseless(which: &u8, p: &mut Probe) -> Check {
    let (r, k) = (4usize, 8usize);
    let n = r + k;
    let mut h = SparseMatrix::new(r, n);
    let mut rows: Vec<Vec<usize>> = vec![Vec::new(); r];
    for j in 0..k {
        for t in [0usize, 1, 3] {
            let i = (j + t + (*which as usize)) % r;
            if !rows[i].contains(&j) {
                h.insert(i, j);
                rows[i].push(j);
            }
        }
    }
    h.insert(0, k);
    for i in 1..r {
        h.insert(i, k + i);
        h.insert(i, k + i - 1);
    }
    let pattern: Option<Vec<bool>> = if which % 2 == 1 { Some(vec![true, true, true, true, false, true]) } else { None };
    let interleaver: Option<isize> = match which {
        2 => Some(3),
        3 => Some(-2),
        _ => None,
    };
    let state = ProbeState { flips: 1, expected: vec![f64::INFINITY], cap: 64, kept: vec![Vec::new()], seen: vec![0], stray: Vec::new(), stray_seen: 0 };
    let frames: Frames = Arc::new(Mutex::new(state));
    let probe = ProbeFactory(frames.clone());
    let run = || -> Result<(), String> {
        let b = BerTest::<Bpsk, _>::new(h.clone(), probe.clone(), pattern.as_deref(), interleaver, 6, 5, &[f32::INFINITY], None, 0).map_err(|e| e.to_string())?;
        b.run().map(|_| ()).map_err(|e| e.to_string())
    };
    guarded(run).map_err(|e| Fail::new("panic", format!("BER run at Eb/N0 = +inf panicked: {e}")))?.map_err(|e| Fail::new("run-error", format!("BER run at Eb/N0 = +inf failed: {e}")))?;
    let st = std::mem::take(&mut *frames.lock().unwrap());
    let got: Vec<&Vec<f64>> = st.kept.iter().flatten().collect();
    ensure!(!got.is_empty(), "no-frames", "no frame reached the decoder at Eb/N0 = +inf");
    let punct: Vec<bool> = match &pattern {
        None => vec![false; n],
        Some(pt) => (0..n).map(|i| !pt[i / (n / pt.len())]).collect(),
    };
    for f in got {
        ensure!(f.len() == n, "frame-length", "decoder received {} LLRs, codeword length is {n} (noise-free channel)", f.len());
        let bits: Vec<u8> = f.iter().map(|&x| u8::from(x <= 0.0)).collect();
        let mut acc = 0u8;
        for i in 0..n {
            if punct[i] {
                ensure!(f[i].to_bits() == 0, "punctured-not-zero", "noise-free channel: LLR at punctured position {i} is {:?}, not exactly +0.0", f[i]);
            } else {
                ensure!(f[i] != 0.0 && !f[i].is_nan(), "unpunctured-degenerate", "noise-free channel: the LLR at transmitted position {i} is {:?}: it carries no sign (frame {f:?})", f[i]);
            }
        }
        for i in 0..r {
            acc ^= rows[i].iter().fold(0u8, |a, &j| a ^ bits[j]);
            if !punct[k + i] {
                ensure!(bits[k + i] == acc, "not-systematic-codeword", "noise-free channel: parity position {} has sign bit {}, the encoder gives {acc} (frame {f:?})", k + i, bits[k + i]);
            }
        }
        p.inner += 1;
    }
    p.nontrivial();
    p.class_if(pattern.is_some(), "punctured");
    Ok(())
}

pub fn property() -> Property {
    Property {
        id: "C12",
        subs: vec![Box::new(Sub {
            name: "llr-frames",
            rule: "configurations: systematic H by construction ([H0 | staircase] or [H0 | unit lower triangular], the latter in a quarter of the cases with permuted columns and in an eighth a plain permutation matrix, 2 <= r <= 12, n = p x bs with pattern length p in 1..=12 and bs a multiple of 3; in a fifth of the cases neither p nor bs is a multiple of 3, and with 8PSK the pattern then keeps 3, 6 or 9 blocks, so that the transmitted length is a multiple of 3 although the codeword length is not), puncturing pattern none / AR4JA-like 1,1,1,1,0 / random with >= 1 true (may puncture information blocks), interleaver none or +-c with c a divisor of the transmitted length, BPSK or 8PSK, Eb/N0 chosen for an expected sigma of 0.08-0.13 (BPSK) or 0.025-0.048 (8PSK); one Eb/N0 point, or two or three in any order whose sigmas halve from level to level (frames are attributed to a point by their mean |LLR|, which differs by a factor >= 4 between points; a point whose statistics report frames although none of its scale reached the decoder is a violation, as is a majority of frames more than a factor 2 away from every point's scale), through BerTest::new or BerTestBuilder, with the outer-code accounting threshold 0 (three fifths), 1 or 2; a probe DecoderFactory records every LLR vector and answers Err with one systematic bit flipped. Oracles per frame: length n; punctured positions bit-exactly +0.0, all others finite and non-zero; signs equal the own systematic re-encoding of the first k sign bits (or, when information blocks are punctured, extend to a codeword by an own GF(2) solve); reported k, N_cw, N, rate. no two recorded frames bit-identical (independence across frames and workers), nor identical to a frame of any earlier simulation of the same process (digests kept process-wide). Noise: received samples recovered from the LLRs (BPSK exactly, 8PSK by Gauss-Newton inversion of the own exact LLR function) with the expected sigma computed from (k, N after puncturing, bits per symbol, Eb/N0); mean, variance (Wilson-Hilferty), <w,s> scale statistic, lag-1 and re/im correlation, and the autocorrelation within a frame at lags 2, 3, 4, 8, ..., 65 536 (those shorter than the frame), within +-7 sigma, per Eb/N0 point, once >= 3500 samples were collected for it; no transmitted position at which the recovered noise is below 1e-4 sigma in five or more frames and half of all frames. Non-trivial = puncturing and interleaving both present, or 8PSK with either; inner = frames examined",
            cases: |t| t.pick(500, 20_000),
            strategy,
            check,
            health: &[("puncturing+interleaving", 0.25), ("8PSK", 0.40), ("backward-interleaver", 0.20), ("several-ebn0-points", 0.40)],
        }),
        Box::new(EnumSub {
            name: "long-frames",
            rule: "four configurations whose transmitted frame is longer than 2^16 bits (staircase codes of 66 000, 66 003 and 84 000 bits with a weight-3 message part; interleaver 3 / -21 / 4 / -8 columns; BPSK and 8PSK; a 7-block pattern that removes a parity block; BerTest::new and BerTestBuilder; one case with two Eb/N0 points): the same per-frame oracles (length, exact zeros at the punctured positions, signs = own accumulator re-encoding of the first k sign bits, no repeated frame) and the same noise statistics",
            cases: long_cases,
            check,
            exhaustive: false,
        }),
        Box::new(EnumSub {
            name: "noise-free",
            rule: "BPSK at Eb/N0 = +infinity (sigma 0) on a 4 x 12 staircase code, with and without a pattern that removes a parity block, with and without an interleaver (3 / -2 columns): frames of codeword length, exact zeros at the punctured positions, every other LLR non-zero and not NaN (infinite is what a certain bit looks like), signs = own accumulator re-encoding of the first k sign bits",
            cases: noiseless_cases,
            check: check_noiseless,
            exhaustive: false,
        })],
        assumptions: vec![
            "the BER engine draws messages and noise from rand::rng() (not seedable without a hook): structural verdicts do not depend on the draw; the statistical ones use +-7 sigma acceptance regions (per-test false-alarm probability < 3e-12 under the Gaussian approximation)".into(),
            "hard decisions of the recorded LLRs equal the transmitted bits (error probability < 1e-14 per sample at the generated noise levels: BPSK sigma <= 0.13, 8PSK sigma <= 0.048)".into(),
        ],
    }
}
