//! Decoder checks (C01 validity, C10 statelessness) on the toolbox's own standard
//! codes with AWGN-like LLRs around the decoding threshold, incl. a punctured block.

use super::impls::*;
use crate::common::*;
use crate::engine::*;
use ldpc_toolbox::codes::ccsds::{AR4JACode, AR4JAInfoSize, AR4JARate};
use ldpc_toolbox::codes::dvbs2::Code;
use ldpc_toolbox::decoder::DecoderOutput;
use ldpc_toolbox::sparse::SparseMatrix;
use proptest::prelude::*;
use serde::{Deserialize, Serialize};
use std::sync::OnceLock;

pub struct RealCode {
    pub name: &'static str,
    /// behind a mutex so that the shared table does not require `SparseMatrix: Sync`
    /// (a change to the library that adds interior mutability must not stop the harness from building)
    h: std::sync::Mutex<SparseMatrix>,
    pub n: usize,
    pub rows: Vec<Vec<usize>>,
    pub k: usize,
    /// positions that are not transmitted (LLR exactly 0)
    pub punctured: Vec<bool>,
    /// codewords to transmit: own systematic encoding is not needed, the all-zero word and
    /// words from a small own null-space sample are used
    pub codewords: Vec<Vec<u8>>,
}

const NAMES_RC: [&str; 5] = ["dvbs2-1/2-short", "dvbs2-8/9-short", "ar4ja-1/2-k1024", "ar4ja-4/5-k1024", "synthetic-70000"];

fn staircase_codewords(h: &SparseMatrix, k: usize, count: usize) -> Vec<Vec<u8>> {
    // own accumulator encoding for [H0 | dual diagonal]
    let n = h.num_cols();
    let m = n - k;
    let rows = sorted_rows(h);
    let mut out = vec![vec![0u8; n]];
    let mut s = 0x5eed_u64;
    for _ in 0..count {
        let mut c = vec![0u8; n];
        for b in c.iter_mut().take(k) {
            s = splitmix(s);
            *b = (s & 1) as u8;
        }
        let mut prev = 0u8;
        for i in 0..m {
            let sum = rows[i].iter().filter(|&&j| j < k).fold(0u8, |a, &j| a ^ c[j]);
            prev ^= sum;
            c[k + i] = prev;
        }
        out.push(c);
    }
    out
}

/// a code longer than 2^16 bits (longer than any code of the toolbox): 35 000 checks, 35 600
/// message columns of weight 3 at pseudo-random rows, staircase parity part
fn synthetic_70000() -> SparseMatrix {
    let (r, k) = (35_000usize, 35_600usize);
    let mut h = SparseMatrix::new(r, r + k);
    for j in 0..k {
        for (a, b) in [(1usize, 0usize), (7, 3), (13, 11)] {
            h.insert((a * j + b + j / r) % r, j);
        }
    }
    h.insert(0, k);
    for i in 1..r {
        h.insert(i, k + i);
        h.insert(i, k + i - 1);
    }
    h
}

fn build(name: &'static str) -> RealCode {
    match name {
        "synthetic-70000" => {
            let h = synthetic_70000();
            let n = h.num_cols();
            let k = n - h.num_rows();
            let codewords = staircase_codewords(&h, k, 2);
            let rows = sorted_rows(&h);
            for c in &codewords {
                assert!(syndrome_rows_ok(&rows, c), "own encoder produced a non-codeword");
            }
            RealCode { name, rows, k, punctured: vec![false; n], codewords, n, h: std::sync::Mutex::new(h) }
        }
        "dvbs2-1/2-short" | "dvbs2-8/9-short" => {
            let code = if name == "dvbs2-1/2-short" { Code::R1_2short } else { Code::R8_9short };
            let h = code.h();
            let n = h.num_cols();
            let k = n - h.num_rows();
            let codewords = staircase_codewords(&h, k, 3);
            let rows = sorted_rows(&h);
            for c in &codewords {
                assert!(syndrome_rows_ok(&rows, c), "own encoder produced a non-codeword");
            }
            RealCode { name, rows, k, punctured: vec![false; n], codewords, n, h: std::sync::Mutex::new(h) }
        }
        _ => {
            let rate = if name == "ar4ja-1/2-k1024" { AR4JARate::R1_2 } else { AR4JARate::R4_5 };
            let h = AR4JACode::new(rate, AR4JAInfoSize::K1024).h();
            let n = h.num_cols();
            let m = h.num_rows() / 3;
            let k = n - h.num_rows();
            // the last M columns are punctured in the AR4JA codes
            let punctured: Vec<bool> = (0..n).map(|j| j >= n - m).collect();
            // codewords: zero word + a few from an own elimination of the (small) matrix
            let mat = Mat::from_sparse(&h);
            let basis = mat.to_bits().nullspace();
            let mut codewords = vec![vec![0u8; n]];
            let mut s = 0xabcdef_u64;
            for _ in 0..3 {
                let mut c = vec![0u8; n];
                for b in &basis {
                    s = splitmix(s);
                    if s & 1 == 1 {
                        for (x, y) in c.iter_mut().zip(b) {
                            *x ^= *y;
                        }
                    }
                }
                codewords.push(c);
            }
            let rows = sorted_rows(&h);
            RealCode { name, rows, k, punctured, codewords, n, h: std::sync::Mutex::new(h) }
        }
    }
}

impl RealCode {
    pub fn h(&self) -> SparseMatrix {
        self.h.lock().unwrap().clone()
    }
}

pub fn code(i: usize) -> &'static RealCode {
    static CODES: [OnceLock<RealCode>; 5] = [const { OnceLock::new() }; 5];
    CODES[i % 5].get_or_init(|| build(NAMES_RC[i % 5]))
}

#[derive(Debug, Clone, Serialize, Deserialize)]
pub struct RcCase {
    pub code: usize,
    pub codeword: usize,
    pub noise_seed: u64,
    /// noise standard deviation relative to the code's approximate decoding threshold
    pub sigma: Fx,
    pub limit: usize,
    pub frames: usize,
}

pub fn strategy(_t: Tier) -> BoxedStrategy<RcCase> {
    (0usize..5, 0usize..4, any::<u64>(), prop_oneof![4 => 0.8f64..1.1, 1 => 0.3f64..0.8, 1 => 1.1f64..2.0, 1 => 0.05f64..0.2], prop_oneof![Just(0usize), Just(1), Just(5), Just(20), Just(50)], 1usize..=3)
        .prop_map(|(code, codeword, noise_seed, sigma, limit, frames)| RcCase { code, codeword, noise_seed, sigma: Fx(sigma), limit, frames })
        .boxed()
}

/// deterministic Gaussian noise (Box-Muller over splitmix64)
pub fn llrs_for(rc: &RealCode, case: &RcCase, frame: usize) -> Vec<f64> {
    let cw = &rc.codewords[case.codeword % rc.codewords.len()];
    // approximate threshold sigma of each code (BPSK amplitude 1)
    let threshold = match rc.name {
        "dvbs2-1/2-short" => 0.85,
        "dvbs2-8/9-short" => 0.46,
        "ar4ja-1/2-k1024" => 0.84,
        "synthetic-70000" => 0.80,
        _ => 0.60,
    };
    let sigma = case.sigma.0 * threshold;
    let mut s = splitmix(case.noise_seed ^ (frame as u64).wrapping_mul(0x9E37_79B9));
    let mut next = || {
        s = splitmix(s);
        ((s >> 11) as f64 + 0.5) / (1u64 << 53) as f64
    };
    (0..cw.len())
        .map(|j| {
            if rc.punctured[j] {
                return 0.0;
            }
            let (u1, u2) = (next(), next());
            let g = (-2.0 * u1.ln()).sqrt() * (2.0 * std::f64::consts::PI * u2).cos();
            let x = if cw[j] == 1 { -1.0 } else { 1.0 };
            2.0 * (x + sigma * g) / (sigma * sigma)
        })
        .collect()
}

fn validity(name: &str, rc: &RealCode, res: &Result<DecoderOutput, DecoderOutput>, llrs: &[f64], limit: usize) -> Check {
    let n = rc.n;
    let sign: Vec<u8> = llrs.iter().map(|&x| u8::from(x <= 0.0)).collect();
    let sign_ok = syndrome_rows_ok(&rc.rows, &sign);
    let f = |key: &str, msg: String| Err(Fail::new(key, format!("{name} on {}: {msg}", rc.name)));
    match res {
        Ok(o) => {
            if o.codeword.len() != n {
                return f("ok-length", format!("success word has length {}", o.codeword.len()));
            }
            if !syndrome_rows_ok(&rc.rows, &o.codeword) {
                return f("ok-not-codeword", format!("reported success after {} iterations on a word violating a parity check", o.iterations));
            }
            if o.iterations > limit || (o.iterations == 0) != sign_ok {
                return f("ok-iterations", format!("success with {} iterations (limit {limit}, input sign pattern codeword: {sign_ok})", o.iterations));
            }
            if sign_ok && o.codeword != sign {
                return f("ok-zero-word", "zero-iteration success does not return the sign pattern".into());
            }
        }
        Err(o) => {
            if o.codeword.len() != n || o.iterations != limit {
                return f("err-shape", format!("failure with length {} and {} iterations (limit {limit})", o.codeword.len(), o.iterations));
            }
            if limit >= 1 && syndrome_rows_ok(&rc.rows, &o.codeword) {
                return f("err-is-codeword", "reported failure with a word that satisfies every check".into());
            }
        }
    }
    Ok(())
}

/// C01 on real codes: validity of every implementation's result
pub fn check_c01(case: &RcCase, p: &mut Probe) -> Check {
    let rc = code(case.code);
    let llrs = llrs_for(rc, case, 0);
    let mut conv = 0;
    let mut fail = 0;
    for imp in factory_variants() {
        let name = imp.to_string();
        let mut dec = build_factory(&imp, rc.h());
        let res = guarded(|| dec.decode(&llrs, case.limit)).map_err(|e| Fail::new("panic", format!("{name} on {}: decode panicked: {e}", rc.name)))?;
        validity(&name, rc, &res, &llrs, case.limit)?;
        match &res {
            Ok(o) if o.iterations >= 1 => conv += 1,
            Err(_) if case.limit >= 1 => fail += 1,
            _ => {}
        }
        p.inner += 1;
    }
    p.class_if(conv > 0, "some-implementation-converged");
    p.class_if(fail > 0, "some-implementation-failed");
    p.class_if(conv > 0 && fail > 0, "threshold-region");
    p.class_if(rc.punctured.iter().any(|&b| b), "punctured-block");
    if case.limit >= 1 {
        p.nontrivial();
    }
    Ok(())
}

/// C10 on real codes: a reused decoder equals a fresh one over 1..=3 frames
pub fn check_c10(case: &RcCase, p: &mut Probe) -> Check {
    let rc = code(case.code);
    // a third of the implementations per case (by seed) keeps the cost bounded
    let variants = factory_variants();
    for (vi, imp) in variants.iter().enumerate() {
        if (vi as u64 + case.noise_seed) % 3 != 0 {
            continue;
        }
        let name = imp.to_string();
        let mut reused = build_factory(imp, rc.h());
        for fr in 0..case.frames.max(2) {
            let llrs = llrs_for(rc, case, fr);
            // alternate limits so that a limit-0 call follows an iterating one
            let limit = if fr % 2 == 1 { 0 } else { case.limit.max(1) };
            let got = guarded(|| reused.decode(&llrs, limit)).map_err(|e| Fail::new("panic", format!("{name}: reused decoder panicked: {e}")))?;
            let mut fresh = build_factory(imp, rc.h());
            let want = fresh.decode(&llrs, limit);
            p.inner += 1;
            if got != want {
                let d = |r: &Result<DecoderOutput, DecoderOutput>| match r {
                    Ok(o) => format!("Ok(iterations {})", o.iterations),
                    Err(o) => format!("Err(iterations {})", o.iterations),
                };
                return Err(Fail::new("stale", format!("{name} on {}: frame {fr} (limit {limit}) on the reused decoder gives {}, a fresh decoder {} (words equal: {})", rc.name, d(&got), d(&want), match (&got, &want) { (Ok(a), Ok(b)) | (Err(a), Err(b)) => a.codeword == b.codeword, _ => false })));
            }
        }
    }
    p.nontrivial();
    Ok(())
}
