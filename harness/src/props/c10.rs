//! C10 — a decoder object carries no state from one frame to the next.
//! Differential, history-based: long-lived decoder vs a freshly built one.

use super::decgen::*;
use super::impls::*;
use ldpc_toolbox::decoder::arithmetic::*;
use crate::common::*;
use crate::engine::*;
use crate::ensure;
use proptest::prelude::*;
use serde::{Deserialize, Serialize};

#[derive(Debug, Clone, Serialize, Deserialize)]
pub struct Call {
    pub llrs: Vec<Fx>,
    pub limit: usize,
}

#[derive(Debug, Clone, Serialize, Deserialize)]
pub struct Case {
    pub h: Mat,
    pub calls: Vec<Call>,
}

pub fn strategy(max_r: usize, max_n: usize, max_calls: usize) -> BoxedStrategy<Case> {
    strategy_on(decoder_matrix(max_r, max_n).boxed(), max_calls)
}

/// a check node with more than 255 neighbours: 2..=4 checks over 260..=400 variables, the first of
/// them on nearly all variables. (Variable nodes stay far below 200 neighbours: C05 bounds the number of
/// messages arriving at a variable of an 8-bit arithmetic by 200, and a variable of degree 259 or more
/// does overflow its 16-bit sum.)
fn high_degree_matrix() -> BoxedStrategy<Mat> {
    prop_oneof![high_degree_few_checks(), high_degree_with_cover()].boxed()
}

/// one check over the first 256..=330 bits and n/4 checks of weight 4 that cover every bit once
fn high_degree_with_cover() -> BoxedStrategy<Mat> {
    (65usize..=90, 0usize..=20)
        .prop_map(|(q, short)| {
            let n = 4 * q;
            let d = (n - short).max(256);
            let mut rows: Vec<Vec<usize>> = vec![(0..d).collect()];
            for r in 0..q {
                rows.push(vec![r, r + q, r + 2 * q, r + 3 * q]);
            }
            Mat::from_rows(q + 1, n, &rows)
        })
        .boxed()
}

fn high_degree_few_checks() -> BoxedStrategy<Mat> {
    (2usize..=4, 260usize..=400, any::<u64>())
        .prop_map(|(r, n, seed)| {
            let mut rows: Vec<Vec<usize>> = Vec::new();
            let mut s = seed;
            rows.push((0..n).filter(|j| j % 17 != 3).collect());
            for i in 1..r {
                let mut row = Vec::new();
                for j in 0..n {
                    s = splitmix(s);
                    if s % (8 + i as u64 * 20) == 0 {
                        row.push(j);
                    }
                }
                if row.len() < 2 {
                    row = vec![i, n - 1 - i];
                }
                rows.push(row);
            }
            Mat::from_rows(r, n, &rows)
        })
        .boxed()
}

/// histories for the high-degree matrices: codewords sent with strong LLRs (magnitude 8..16, so that
/// the message of a check with hundreds of neighbours is not negligible) and one to three weak wrong
/// bits, limits 2..=12: every call iterates, most need two or more iterations
fn strong_history(matrix: BoxedStrategy<Mat>, max_calls: usize) -> BoxedStrategy<Case> {
    matrix
        .prop_flat_map(move |h| {
            let n = h.cols;
            let hh = h.clone();
            // wrong bits either weak (0.3..2) or as strong as the right ones (hard-decision style frames
            // of nearly constant magnitude, where every check's message matters)
            let call = (any::<u64>(), proptest::collection::vec(8.0f64..16.0, n), proptest::collection::vec((any::<u16>(), 0.3f64..2.0), 1..=14), 0usize..=12, any::<bool>()).prop_map(move |(mask, mags, wrong, limit, hard)| {
                let c = codeword_of(&hh, mask);
                let mut v: Vec<f64> = c.iter().zip(&mags).map(|(&b, &m)| {
                    let m = if hard { 20.0 + (m - 8.0) * 0.04 } else { m };
                    if b == 1 { -m } else { m }
                }).collect();
                for (a, m) in wrong {
                    let i = idx(a, v.len());
                    v[i] = if hard { -v[i] } else if v[i] > 0.0 { -m } else { m };
                }
                Call { llrs: v.into_iter().map(Fx).collect(), limit }
            });
            (Just(h), proptest::collection::vec(call, 2..=max_calls))
        })
        .prop_map(|(h, calls)| Case { h, calls })
        .boxed()
}

fn strategy_on(matrix: BoxedStrategy<Mat>, max_calls: usize) -> BoxedStrategy<Case> {
    strategy_between(matrix, 1, max_calls)
}

fn strategy_between(matrix: BoxedStrategy<Mat>, min_calls: usize, max_calls: usize) -> BoxedStrategy<Case> {
    matrix
        .prop_flat_map(move |h| {
            let call = (llr_vector(&h), limit_strategy(), 0..100u8);
            (Just(h), proptest::collection::vec(call, min_calls..=max_calls))
        })
        .prop_map(|(h, raw)| {
            let mut calls: Vec<Call> = Vec::new();
            for (llrs, limit, repeat) in raw {
                if repeat < 12 && !calls.is_empty() {
                    let prev = calls.last().unwrap().clone();
                    calls.push(prev);
                } else if repeat < 26 && !calls.is_empty() {
                    // the same frame again (the previous one, or an earlier one) under another limit
                    let src = if repeat % 2 == 0 { calls.len() - 1 } else { (repeat as usize) % calls.len() };
                    let prev = calls[src].clone();
                    calls.push(Call { llrs: prev.llrs, limit });
                } else {
                    calls.push(Call {
                        llrs: llrs.into_iter().map(Fx).collect(),
                        limit,
                    });
                }
            }
            Case { h, calls }
        })
        .boxed()
}

/// how many calls lie between two noisy frames: one decoder object per name decodes a noisy frame
/// (iterating), then N frames that need no iteration (exact codewords; every third with limit 0), then
/// another noisy frame that fails the initial parity check; for N around 2^8, 2 * 2^8 - 2 and 2^16 the
/// last result must be that of a fresh decoder (a counter of 8 or 16 bits of calls or frames has
/// come round by then)
fn gap_cases(_t: Tier) -> Vec<usize> {
    (0..36).collect()
}

fn check_gap(which: &usize, p: &mut Probe) -> Check {
    let imp = &factory_variants()[*which];
    let name = imp.to_string();
    // 4 x 8, row weight 4, column weight 2
    let mut h = Mat::new(4, 8);
    for (i, row) in [[0usize, 1, 2, 3], [2, 3, 4, 5], [4, 5, 6, 7], [0, 1, 6, 7]].iter().enumerate() {
        for &j in row {
            h.ones.push((i, j));
        }
    }
    let hs = h.to_sparse();
    let clean = [5.0, 4.0, 6.5, 3.5, 4.5, 5.5, 6.0, 4.25];
    let noisy_a = [5.0, -1.0, 6.5, 3.5, 4.5, 5.5, -0.5, 4.25];
    let noisy_b = [-0.75, 4.0, 6.5, -1.25, 4.5, 0.5, 6.0, 4.25];
    let mut fresh = build_factory(imp, hs.clone());
    let want = fresh.decode(&noisy_b, 2);
    for &gap in &[253usize, 254, 255, 256, 257, 509, 510, 511, 65_533, 65_534, 65_535, 65_536] {
        let mut d = build_factory(imp, hs.clone());
        let first = guarded(|| d.decode(&noisy_a, 6)).map_err(|e| Fail::new("panic", format!("{name}: panicked on the first frame: {e}")))?;
        let _ = first;
        for i in 0..gap {
            let r = guarded(|| d.decode(&clean, if i % 3 == 2 { 0 } else { 4 })).map_err(|e| Fail::new("panic", format!("{name}: call {} on one decoder object panicked: {e}", i + 2)))?;
            ensure!(r.as_ref().is_ok_and(|o| o.iterations == 0), "stale", "{name}: call {} on one decoder object: an exact codeword is not returned with 0 iterations: {r:?}", i + 2);
        }
        let got = guarded(|| d.decode(&noisy_b, 2)).map_err(|e| Fail::new("panic", format!("{name}: call {} on one decoder object panicked: {e}", gap + 2)))?;
        p.inner += gap as u64 + 2;
        ensure!(got == want, "stale-after-a-gap", "{name}: a noisy frame, {gap} frames that need no iteration, then another noisy frame (limit 2): the long-lived decoder returns {got:?}, a fresh decoder returns {want:?}");
    }
    p.nontrivial();
    Ok(())
}

fn check(case: &Case, p: &mut Probe) -> Check {
    let hs = case.h.to_sparse();
    let mut seen_iterating = false;
    let mut seen_failure = false;
    let mut class_limit0_after_iter = false;
    let mut class_fail_before_success = false;
    let mut class_limit_change = false;
    let moved = (case.h.ones.len() + 5 * case.calls.len()) % 12 == 7 && case.calls.len() >= 2;
    p.class_if(moved, "decoder-used-on-another-thread");
    for imp in factory_variants() {
        let name = imp.to_string();
        let mut long_lived = build_factory(&imp, hs.clone());
        let mut prev_limit = None;
        let mut iterated = false;
        let mut failed = false;
        for (i, call) in case.calls.iter().enumerate() {
            let llrs = fx_vec(&call.llrs);
            // one history in twelve: every second call on the long-lived decoder runs on another thread
            // (a simulation engine builds its decoders on one thread and hands them to workers)
            let got = if moved && i % 2 == 1 {
                guarded(|| on_other_thread(|| long_lived.decode(&llrs, call.limit)))
            } else {
                guarded(|| long_lived.decode(&llrs, call.limit))
            }
            .map_err(|e| Fail::new("panic", format!("{name}: call {i} panicked on the long-lived decoder: {e}")))?;
            let mut fresh = build_factory(&imp, hs.clone());
            let want = guarded(|| fresh.decode(&llrs, call.limit)).map_err(|e| Fail::new("panic", format!("{name}: call {i} panicked on a fresh decoder: {e}")))?;
            p.inner += 1;
            if got != want {
                let key = if call.limit == 0 { "stale-limit0" } else { "stale" };
                return Err(Fail::new(
                    key,
                    format!("{name}: call {i} (limit {}) on the long-lived decoder returned {:?}, a fresh decoder returns {:?}", call.limit, got, want),
                ));
            }
            let sign_ok = case.h.syndrome_ok(&sign_pattern(&llrs));
            if call.limit == 0 && !sign_ok && iterated {
                class_limit0_after_iter = true;
            }
            if want.is_ok() && failed {
                class_fail_before_success = true;
            }
            if prev_limit.is_some_and(|l| l != call.limit) {
                class_limit_change = true;
            }
            prev_limit = Some(call.limit);
            if !sign_ok && call.limit >= 1 {
                iterated = true;
                seen_iterating = true;
            }
            if want.is_err() {
                failed = true;
                seen_failure = true;
            }
        }
    }
    p.class_if(class_limit0_after_iter, "limit0-after-iterating");
    p.class_if(class_fail_before_success, "failure-before-success");
    p.class_if(class_limit_change, "limit-change");
    p.class_if(case.calls.len() >= 3, "calls>=3");
    if case.calls.len() >= 2 && (seen_failure || class_limit_change) && seen_iterating {
        p.nontrivial();
    }
    Ok(())
}

/// histories on any matrix (checks of degree 0 and 1 included, where the min*-type arithmetics
/// panic by contract): per call the *outcome* (result, or a panic) of the long-lived decoder must be
/// that of a fresh one
fn wild_strategy(_t: Tier) -> BoxedStrategy<Case> {
    super::c03::any_matrix()
        .prop_flat_map(|h| {
            let n = h.cols;
            let call = (proptest::collection::vec(any_llr(), n), limit_strategy(), 0..100u8);
            (shuffled(Just(h)), proptest::collection::vec(call, 2..=6))
        })
        .prop_map(|(h, raw)| {
            let mut calls: Vec<Call> = Vec::new();
            for (llrs, limit, repeat) in raw {
                if repeat < 20 && !calls.is_empty() {
                    let prev = calls[(repeat as usize) % calls.len()].clone();
                    calls.push(Call { llrs: prev.llrs, limit });
                } else {
                    calls.push(Call { llrs: llrs.into_iter().map(Fx).collect(), limit });
                }
            }
            Case { h, calls }
        })
        .boxed()
}

fn check_wild(case: &Case, p: &mut Probe) -> Check {
    let hs = case.h.to_sparse();
    let mut any_panic = false;
    for imp in factory_variants() {
        let name = imp.to_string();
        // construction may itself reject the matrix: then there is no object to reuse
        let Ok(mut long_lived) = guarded(|| build_factory(&imp, hs.clone())) else {
            any_panic = true;
            continue;
        };
        for (i, call) in case.calls.iter().enumerate() {
            let llrs = fx_vec(&call.llrs);
            let got = guarded(|| long_lived.decode(&llrs, call.limit));
            let want = guarded(|| build_factory(&imp, hs.clone()).decode(&llrs, call.limit));
            p.inner += 1;
            match (&got, &want) {
                (Ok(a), Ok(b)) => {
                    if a != b {
                        return Err(Fail::new("stale", format!("{name}: call {i} (limit {}) on the long-lived decoder returned {a:?}, a fresh decoder returns {b:?}", call.limit)));
                    }
                }
                (Err(_), Err(_)) => {
                    // both panicked (e.g. a check of degree one under a min*-type arithmetic): the object
                    // may be left in any state by a panic, so its history ends here
                    any_panic = true;
                    break;
                }
                (Err(e), Ok(b)) => return Err(Fail::new("stale", format!("{name}: call {i} (limit {}) panicked on the long-lived decoder ({e}), a fresh decoder returns {b:?}", call.limit))),
                (Ok(a), Err(e)) => return Err(Fail::new("stale", format!("{name}: call {i} (limit {}) on the long-lived decoder returned {a:?}, a fresh decoder panics ({e})", call.limit))),
            }
        }
    }
    p.class_if(case.h.row_lists().iter().any(|r| r.len() <= 1), "check-of-degree<=1");
    p.class_if(any_panic, "some-implementation-panicked");
    if case.calls.len() >= 2 {
        p.nontrivial();
    }
    Ok(())
}

/// a decoder and a clone of it decode at the same time on two threads: each must return what a
/// fresh decoder returns for its own frames (clones share nothing)
fn concurrent_pair<D: ldpc_toolbox::decoder::LdpcDecoder + Clone + Send>(name: &str, d: D, frames: &[(Vec<f64>, usize)]) -> Check {
    // what a fresh object (a clone of the never-used decoder) returns for every frame, sequentially
    let mut expected = Vec::with_capacity(frames.len());
    for (llrs, limit) in frames {
        let mut f = d.clone();
        expected.push(guarded(|| f.decode(llrs, *limit)).map_err(|e| Fail::new("panic", format!("{name}: a fresh decoder panicked: {e}")))?);
    }
    let (mut a, mut b) = (d.clone(), d);
    let barrier = std::sync::Barrier::new(2);
    let run = |dec: &mut D, reverse: bool| -> Option<(usize, String)> {
        barrier.wait();
        for round in 0..6 {
            for t in 0..frames.len() {
                let i = if reverse { frames.len() - 1 - t } else { t };
                let got = match std::panic::catch_unwind(std::panic::AssertUnwindSafe(|| dec.decode(&frames[i].0, frames[i].1))) {
                    Ok(g) => g,
                    Err(_) => return Some((i, format!("panicked in round {round}"))),
                };
                if got != expected[i] {
                    return Some((i, format!("returned {got:?} in round {round}")));
                }
            }
        }
        None
    };
    let (ra, rb) = std::thread::scope(|s| {
        let ha = s.spawn(|| run(&mut a, false));
        let hb = s.spawn(|| run(&mut b, true));
        (ha.join(), hb.join())
    });
    for (who, r) in [("the decoder", ra), ("its clone", rb)] {
        match r {
            Ok(None) => {}
            Ok(Some((i, what))) => {
                return Err(Fail::new("clone-interference", format!("{name}: while a clone of the same decoder was decoding on another thread, {who} {what} for frame {i} (limit {}); a decoder used alone returns {:?}", frames[i].1, expected[i])))
            }
            Err(_) => return Err(Fail::new("panic", format!("{name}: a decoding thread panicked"))),
        }
    }
    Ok(())
}

fn check_concurrent(case: &Case, p: &mut Probe) -> Check {
    let hs = case.h.to_sparse();
    let frames: Vec<(Vec<f64>, usize)> = case.calls.iter().map(|c| (fx_vec(&c.llrs), c.limit)).collect();
    if frames.len() < 2 {
        return Ok(());
    }
    macro_rules! all {
        ($($t:ident),*) => { $(
            concurrent_pair(concat!("flooding/", stringify!($t)), ldpc_toolbox::decoder::flooding::Decoder::new(hs.clone(), <$t>::new()), &frames)?;
            concurrent_pair(concat!("layered/", stringify!($t)), ldpc_toolbox::decoder::horizontal_layered::Decoder::new(hs.clone(), <$t>::new()), &frames)?;
            p.inner += 2;
        )* };
    }
    crate::with_arith_types!(all);
    p.nontrivial();
    Ok(())
}

pub fn property() -> Property {
    Property {
        id: "C10",
        subs: vec![
            Box::new(Sub {
                name: "fresh-vs-reused",
                rule: "one generated H (C01 generator, 1..=8 x 2..=14) and a history of 1..=20 calls (LLR classes of C01: converging noisy codewords, garbage, exact codewords, specials, zero blocks, extremes; limits {0,1,2,3,5,10,30,200}; 12% exact repeats of the previous call, 14% the frame of an earlier call again under a newly drawn limit); every call on the long-lived decoder of each of the 36 names must equal (Result, word, iterations) the call on a decoder freshly built for it; non-trivial = history of >= 2 calls containing an iterating call and a failure or a limit change; inner evaluations = compared calls",
                cases: |t| t.pick(15_000, 400_000),
                strategy: |_| strategy(8, 14, 20),
                check,
                health: &[("limit0-after-iterating", 0.25), ("failure-before-success", 0.25)],
            }),
            Box::new(EnumSub {
                name: "gap-between-noisy-frames",
                rule: "each of the 36 names on a 4 x 8 matrix: a noisy frame (iterating), then N exact codewords (0 iterations each; every third under limit 0), then another noisy frame under limit 2, for N = 253..=257, 509..=511 and 65 533..=65 536: the last result equals that of a fresh decoder (counters of 8 or 16 bits of calls have come round)",
                cases: gap_cases,
                check: check_gap,
                exhaustive: false,
            }),
            Box::new(Sub {
                name: "fresh-vs-reused-long-history",
                rule: "same oracle, H up to 6 x 12, histories of 40..=90 calls (a worker of a simulation keeps its decoder for thousands of frames)",
                cases: |t| t.pick(300, 10_000),
                strategy: |_| strategy_between(decoder_matrix(6, 12).boxed(), 40, 90),
                check,
                health: &[],
            }),
            Box::new(Sub {
                name: "fresh-vs-reused-large",
                rule: "same oracle, H up to 24 x 60, histories up to 8 calls",
                cases: |t| t.pick(600, 20_000),
                strategy: |_| strategy(24, 60, 8),
                check,
                health: &[],
            }),
            Box::new(Sub {
                name: "fresh-vs-reused-any-matrix",
                rule: "any matrix 1..=8 x 1..=12 (checks of degree 0 and 1, isolated variables, shuffled insertion order), histories of 2..=6 calls with LLRs from the C01 catalogue (20 % repeating an earlier frame under another limit): per call the outcome of the long-lived decoder, a result or a panic, must be that of a fresh decoder; a history ends at the first call on which both panic",
                cases: |t| t.pick(6_000, 200_000),
                strategy: wild_strategy,
                check: check_wild,
                health: &[("check-of-degree<=1", 0.30)],
            }),
            Box::new(Sub {
                name: "fresh-vs-reused-high-degree",
                rule: "same oracle on matrices with a check node of more than 255 neighbours (2..=4 checks over 260..=400 variables, the first on nearly all of them, or one check over 256..=330 bits plus weight-4 checks covering every bit once; variable degrees stay below C05's bound of 200), histories up to 5 calls, half of them made of codewords sent with strong LLRs and up to 14 wrong bits, weak (0.3..2) or as strong as the right ones (magnitude 20), under limits 0..=12",
                cases: |t| t.pick(24, 2_000),
                strategy: |_| prop_oneof![strategy_on(high_degree_matrix(), 5), strong_history(high_degree_matrix(), 5)].boxed(),
                check,
                health: &[],
            }),
            Box::new(Sub {
                name: "concurrent-clones",
                rule: "one generated H and 2..=8 frames (same generators): for each of the 24 arithmetics and both schedules a generic decoder and a clone of it decode the frames six times over at the same time on two threads (started together, opposite orders); every result must be what a decoder used alone returns for that frame (clones share nothing); inner = decoder pairs",
                cases: |t| t.pick(400, 12_000),
                strategy: |_| strategy(8, 14, 8),
                check: check_concurrent,
                health: &[],
            }),
            Box::new(Sub {
                name: "real-codes",
                rule: "the toolbox's own codes (DVB-S2 short 1/2 and 8/9, AR4JA k=1024 with punctured block) and a synthetic staircase code of 70 600 bits, 2..=3 noisy frames around the threshold with alternating limits (iterating call, then limit 0) on one decoder per implementation (a third of the 36 names per case), each compared with a fresh decoder",
                cases: |t| t.pick(32, 1_500),
                strategy: super::realcodes::strategy,
                check: super::realcodes::check_c10,
                health: &[],
            }),
        ],
        assumptions: vec!["'what a freshly built decoder returns' is obtained from DecoderImplementation::build_decoder(H.clone()) on the same tree".into()],
    }
}
