//! C03 — both decoding schedules are textbook belief propagation for any arithmetic.
//!
//! Checker-supplied arithmetics (exact integer min-sum, a free "hash term"
//! algebra, tracing wrappers) are plugged into the generic decoders and the
//! result is compared with an own interpreter of the two textbook schedules;
//! on forests the sum-product LLRs are compared with brute-force posteriors.

use crate::common::*;
use crate::engine::*;
use crate::ensure;
use ldpc_toolbox::decoder::arithmetic::*;
use ldpc_toolbox::decoder::{DecoderOutput, Message, SentMessage, flooding, horizontal_layered};
use proptest::prelude::*;
use serde::{Deserialize, Serialize};
use std::collections::BTreeMap;
use std::sync::{Arc, Mutex};

// ---------------------------------------------------------------------------
// Arithmetic 1: exact integer min-sum (wrapping i64: every operation is
// commutative/associative, so results cannot depend on presentation order)

/// The field selects the order in which a node's outgoing messages are emitted (0 = in the order
/// of the incoming slice, 1 = reversed, 2 = rotated, 3 = even positions first): the trait lets an
/// arithmetic emit them in any order, each message carries its destination.
#[derive(Debug, Clone, Default)]
pub struct IntMinSum(pub u8);

pub fn emit_order(n: usize, ord: u8) -> Vec<usize> {
    match ord % 4 {
        0 => (0..n).collect(),
        1 => (0..n).rev().collect(),
        2 => (0..n).map(|i| (i + 1) % n).collect(),
        _ => (0..n).step_by(2).chain((1..n).step_by(2)).collect(),
    }
}

const BIG: i64 = 1 << 45;

fn ims_rule(values: &[(usize, i64)], skip: usize) -> i64 {
    let mut neg = false;
    let mut min = BIG;
    for (i, &(_, x)) in values.iter().enumerate() {
        if i == skip {
            continue;
        }
        if x < 0 {
            neg = !neg;
        }
        let a = x.unsigned_abs().min(i64::MAX as u64) as i64;
        if a < min {
            min = a;
        }
    }
    if neg { -min } else { min }
}

impl DecoderArithmetic for IntMinSum {
    type Llr = i64;
    type CheckMessage = i64;
    type VarMessage = i64;
    type VarLlr = i64;
    fn input_llr_quantize(&self, llr: f64) -> i64 {
        let x = (16.0 * llr).round();
        if x.is_nan() {
            0
        } else {
            x.clamp(-((1u64 << 40) as f64), (1u64 << 40) as f64) as i64
        }
    }
    fn llr_hard_decision(&self, llr: i64) -> bool {
        llr <= 0
    }
    fn llr_to_var_message(&self, llr: i64) -> i64 {
        llr
    }
    fn llr_to_var_llr(&self, llr: i64) -> i64 {
        llr
    }
    fn var_llr_to_llr(&self, v: i64) -> i64 {
        v
    }
    fn send_check_messages<F>(&mut self, var_messages: &[Message<i64>], mut send: F)
    where
        F: FnMut(SentMessage<i64>),
    {
        let vals: Vec<(usize, i64)> = var_messages.iter().map(|m| (m.source, m.value)).collect();
        for i in emit_order(var_messages.len(), self.0) {
            send(SentMessage { dest: var_messages[i].source, value: ims_rule(&vals, i) });
        }
    }
    fn send_var_messages<F>(&mut self, input_llr: i64, check_messages: &[Message<i64>], mut send: F) -> i64
    where
        F: FnMut(SentMessage<i64>),
    {
        let mut total = input_llr;
        for m in check_messages {
            total = total.wrapping_add(m.value);
        }
        for i in emit_order(check_messages.len(), self.0) {
            let m = &check_messages[i];
            send(SentMessage { dest: m.source, value: total.wrapping_sub(m.value) });
        }
        total
    }
    fn update_check_messages_and_vars(&mut self, check_messages: &mut [SentMessage<i64>], vars: &mut [i64]) {
        let ext: Vec<(usize, i64)> = check_messages.iter().map(|m| (m.dest, vars[m.dest].wrapping_sub(m.value))).collect();
        for (i, m) in check_messages.iter_mut().enumerate() {
            let new = ims_rule(&ext, i);
            m.value = new;
            vars[m.dest] = ext[i].1.wrapping_add(new);
        }
    }
}

// ---------------------------------------------------------------------------
// Arithmetic 2: free algebra of 64-bit hash terms

#[derive(Debug, Clone, Default)]
pub struct FreeAlgebra(pub u8);

fn mix1(tag: u64, a: u64) -> u64 {
    splitmix(splitmix(tag ^ 0xA5A5_0000_1111_2222).wrapping_add(a))
}
fn mix2(tag: u64, a: u64, b: u64) -> u64 {
    splitmix(mix1(tag, a).wrapping_add(splitmix(b ^ 0x5555_AAAA_3333_CCCC)))
}

impl DecoderArithmetic for FreeAlgebra {
    type Llr = u64;
    type CheckMessage = u64;
    type VarMessage = u64;
    type VarLlr = u64;
    fn input_llr_quantize(&self, llr: f64) -> u64 {
        mix1(1, llr.to_bits())
    }
    fn llr_hard_decision(&self, llr: u64) -> bool {
        (llr >> 17) & 1 == 1
    }
    fn llr_to_var_message(&self, llr: u64) -> u64 {
        mix1(2, llr)
    }
    fn llr_to_var_llr(&self, llr: u64) -> u64 {
        mix1(3, llr)
    }
    fn var_llr_to_llr(&self, v: u64) -> u64 {
        mix1(4, v)
    }
    fn send_check_messages<F>(&mut self, var_messages: &[Message<u64>], mut send: F)
    where
        F: FnMut(SentMessage<u64>),
    {
        let terms: Vec<u64> = var_messages.iter().map(|m| mix2(5, m.source as u64, m.value)).collect();
        let s = terms.iter().fold(0u64, |a, &b| a.wrapping_add(b));
        for i in emit_order(var_messages.len(), self.0) {
            send(SentMessage { dest: var_messages[i].source, value: mix1(6, s.wrapping_sub(terms[i])) });
        }
    }
    fn send_var_messages<F>(&mut self, input_llr: u64, check_messages: &[Message<u64>], mut send: F) -> u64
    where
        F: FnMut(SentMessage<u64>),
    {
        let terms: Vec<u64> = check_messages.iter().map(|m| mix2(7, m.source as u64, m.value)).collect();
        let s = terms.iter().fold(0u64, |a, &b| a.wrapping_add(b));
        for i in emit_order(check_messages.len(), self.0) {
            send(SentMessage { dest: check_messages[i].source, value: mix2(8, input_llr, s.wrapping_sub(terms[i])) });
        }
        mix2(9, input_llr, s)
    }
    fn update_check_messages_and_vars(&mut self, check_messages: &mut [SentMessage<u64>], vars: &mut [u64]) {
        let ext: Vec<u64> = check_messages.iter().map(|m| mix2(10, vars[m.dest], m.value)).collect();
        let terms: Vec<u64> = check_messages.iter().zip(&ext).map(|(m, e)| mix2(11, m.dest as u64, *e)).collect();
        let s = terms.iter().fold(0u64, |a, &b| a.wrapping_add(b));
        for ((m, e), t) in check_messages.iter_mut().zip(&ext).zip(&terms) {
            let new = mix1(12, s.wrapping_sub(*t));
            m.value = new;
            vars[m.dest] = mix2(13, *e, new);
        }
    }
}

// ---------------------------------------------------------------------------
// Arithmetic 3: tracing wrapper around a built-in arithmetic

pub trait ToF64: Copy {
    fn to_f64(self) -> f64;
}
impl ToF64 for f64 {
    fn to_f64(self) -> f64 {
        self
    }
}
impl ToF64 for f32 {
    fn to_f64(self) -> f64 {
        self as f64
    }
}
impl ToF64 for i8 {
    fn to_f64(self) -> f64 {
        self as f64
    }
}
impl ToF64 for i16 {
    fn to_f64(self) -> f64 {
        self as f64
    }
}

#[derive(Debug, Clone)]
pub enum Event {
    Check { sources: Vec<usize>, dests: Vec<usize> },
    Var { input: f64, sources: Vec<usize>, dests: Vec<usize>, ret: f64 },
    Layer { dests: Vec<usize>, vars_after: Vec<f64> },
}

#[derive(Debug)]
pub struct Tracing<A> {
    inner: A,
    log: Arc<Mutex<Vec<Event>>>,
}

impl<A> Tracing<A> {
    pub fn new(inner: A) -> (Tracing<A>, Arc<Mutex<Vec<Event>>>) {
        let log = Arc::new(Mutex::new(Vec::new()));
        (Tracing { inner, log: log.clone() }, log)
    }
}

impl<A> DecoderArithmetic for Tracing<A>
where
    A: DecoderArithmetic,
    A::Llr: ToF64,
    A::VarLlr: ToF64,
{
    type Llr = A::Llr;
    type CheckMessage = A::CheckMessage;
    type VarMessage = A::VarMessage;
    type VarLlr = A::VarLlr;
    fn input_llr_quantize(&self, llr: f64) -> A::Llr {
        self.inner.input_llr_quantize(llr)
    }
    fn llr_hard_decision(&self, llr: A::Llr) -> bool {
        self.inner.llr_hard_decision(llr)
    }
    fn llr_to_var_message(&self, llr: A::Llr) -> A::VarMessage {
        self.inner.llr_to_var_message(llr)
    }
    fn llr_to_var_llr(&self, llr: A::Llr) -> A::VarLlr {
        self.inner.llr_to_var_llr(llr)
    }
    fn var_llr_to_llr(&self, v: A::VarLlr) -> A::Llr {
        self.inner.var_llr_to_llr(v)
    }
    fn send_check_messages<F>(&mut self, var_messages: &[Message<A::VarMessage>], mut send: F)
    where
        F: FnMut(SentMessage<A::CheckMessage>),
    {
        let mut dests = Vec::new();
        self.inner.send_check_messages(var_messages, |m| {
            dests.push(m.dest);
            send(m)
        });
        self.log.lock().unwrap().push(Event::Check { sources: var_messages.iter().map(|m| m.source).collect(), dests });
    }
    fn send_var_messages<F>(&mut self, input_llr: A::Llr, check_messages: &[Message<A::CheckMessage>], mut send: F) -> A::Llr
    where
        F: FnMut(SentMessage<A::VarMessage>),
    {
        let mut dests = Vec::new();
        let ret = self.inner.send_var_messages(input_llr, check_messages, |m| {
            dests.push(m.dest);
            send(m)
        });
        self.log.lock().unwrap().push(Event::Var { input: input_llr.to_f64(), sources: check_messages.iter().map(|m| m.source).collect(), dests, ret: ret.to_f64() });
        ret
    }
    fn update_check_messages_and_vars(&mut self, check_messages: &mut [SentMessage<A::CheckMessage>], vars: &mut [A::VarLlr]) {
        self.inner.update_check_messages_and_vars(check_messages, vars);
        self.log.lock().unwrap().push(Event::Layer { dests: check_messages.iter().map(|m| m.dest).collect(), vars_after: vars.iter().map(|v| self.inner.var_llr_to_llr(*v).to_f64()).collect() });
    }
}

// ---------------------------------------------------------------------------
// Own interpreter of the two textbook schedules, generic over the arithmetic

type Out = Result<DecoderOutput, DecoderOutput>;

fn hard<A: DecoderArithmetic>(a: &A, llrs: &[A::Llr]) -> Vec<u8> {
    llrs.iter().map(|&l| u8::from(a.llr_hard_decision(l))).collect()
}

pub fn ref_flooding<A: DecoderArithmetic>(a: &mut A, h: &Mat, llrs: &[f64], limit: usize) -> Out {
    let sign: Vec<u8> = llrs.iter().map(|&x| u8::from(x <= 0.0)).collect();
    if h.syndrome_ok(&sign) {
        return Ok(DecoderOutput { codeword: sign, iterations: 0 });
    }
    let rows = h.row_lists();
    let cols = h.col_lists();
    let q: Vec<A::Llr> = llrs.iter().map(|&l| a.input_llr_quantize(l)).collect();
    let mut v2c: BTreeMap<(usize, usize), A::VarMessage> = BTreeMap::new();
    let mut c2v: BTreeMap<(usize, usize), A::CheckMessage> = BTreeMap::new();
    for (c, row) in rows.iter().enumerate() {
        for &v in row {
            v2c.insert((c, v), a.llr_to_var_message(q[v]));
        }
    }
    let mut out: Vec<A::Llr> = q.clone();
    for it in 1..=limit {
        // all check-to-variable messages from the previous variable-to-check messages
        for (c, row) in rows.iter().enumerate() {
            let msgs: Vec<Message<A::VarMessage>> = row.iter().map(|&v| Message { source: v, value: v2c[&(c, v)] }).collect();
            a.send_check_messages(&msgs, |m| {
                c2v.insert((c, m.dest), m.value);
            });
        }
        // then all variable updates
        for (v, col) in cols.iter().enumerate() {
            let msgs: Vec<Message<A::CheckMessage>> = col.iter().map(|&c| Message { source: c, value: c2v[&(c, v)] }).collect();
            out[v] = a.send_var_messages(q[v], &msgs, |m| {
                v2c.insert((m.dest, v), m.value);
            });
        }
        let word = hard(a, &out);
        if h.syndrome_ok(&word) {
            return Ok(DecoderOutput { codeword: word, iterations: it });
        }
    }
    Err(DecoderOutput { codeword: hard(a, &out), iterations: limit })
}

pub fn ref_layered<A: DecoderArithmetic>(a: &mut A, h: &Mat, llrs: &[f64], limit: usize) -> Out {
    let sign: Vec<u8> = llrs.iter().map(|&x| u8::from(x <= 0.0)).collect();
    if h.syndrome_ok(&sign) {
        return Ok(DecoderOutput { codeword: sign, iterations: 0 });
    }
    let rows = h.row_lists();
    let mut vars: Vec<A::VarLlr> = llrs.iter().map(|&l| a.llr_to_var_llr(a.input_llr_quantize(l))).collect();
    let mut rcv: Vec<Vec<SentMessage<A::CheckMessage>>> = rows.iter().map(|row| row.iter().map(|&v| SentMessage { dest: v, value: A::CheckMessage::default() }).collect()).collect();
    let word_of = |a: &A, vars: &[A::VarLlr]| -> Vec<u8> { vars.iter().map(|&v| u8::from(a.llr_hard_decision(a.var_llr_to_llr(v)))).collect() };
    for it in 1..=limit {
        // checks one by one, in row order, with immediate variable updates
        for msgs in rcv.iter_mut() {
            a.update_check_messages_and_vars(msgs, &mut vars);
        }
        let word = word_of(a, &vars);
        if h.syndrome_ok(&word) {
            return Ok(DecoderOutput { codeword: word, iterations: it });
        }
    }
    Err(DecoderOutput { codeword: word_of(a, &vars), iterations: limit })
}

// ---------------------------------------------------------------------------
// generators

#[derive(Debug, Clone, Serialize, Deserialize)]
pub struct Case {
    pub h: Mat,
    pub llrs: Vec<Fx>,
    pub limit: usize,
    /// further calls on the *same* decoder object (each must again equal the textbook result)
    #[serde(default)]
    pub more: Vec<(Vec<Fx>, usize)>,
    /// order in which the checker arithmetics emit a node's messages (see `emit_order`)
    #[serde(default)]
    pub emit: u8,
}

/// any matrix, including checks of degree 0 and 1 and isolated variables
pub fn any_matrix() -> impl Strategy<Value = Mat> {
    (1usize..=8, 1usize..=12, 0..3u8).prop_flat_map(|(r, n, class)| {
        let hi = match class {
            0 => 3.min(n),
            1 => (n / 2 + 1).min(n),
            _ => n,
        };
        proptest::collection::vec(subset(n, 0..=hi), r).prop_map(move |rows| Mat::from_rows(r, n, &rows))
    })
}

/// a few checks over 33..=80 variables, at least one of them of degree 33 or more (beyond any lane,
/// mask or inline-buffer width)
fn wide_matrix() -> impl Strategy<Value = Mat> {
    (1usize..=5, 33usize..=80).prop_flat_map(|(r, n)| {
        (subset(n, 33..=n), proptest::collection::vec(prop_oneof![2 => subset(n, 0..=3), 1 => subset(n, 0..=n)], r - 1)).prop_map(move |(dense, mut rows)| {
            rows.insert(rows.len() / 2, dense);
            Mat::from_rows(r, n, &rows)
        })
    })
}

fn case_strategy(_t: Tier) -> BoxedStrategy<Case> {
    prop_oneof![24 => any_matrix().boxed(), 1 => wide_matrix().boxed()]
        .prop_flat_map(|h| {
            let n = h.cols;
            // one component in thirty is +-infinity (a bit known with certainty, as a shortened or pilot position is fed)
            let comp = || prop_oneof![28 => any_llr(), 1 => Just(f64::INFINITY), 1 => Just(f64::NEG_INFINITY)];
            let llr = || prop_oneof![4 => proptest::collection::vec(comp(), n), 2 => super::decgen::llr_vector(&h)];
            let limit = || prop_oneof![1 => Just(0usize), 2 => Just(1usize), 3 => Just(2usize), 3 => Just(3usize), 3 => Just(6usize), 2 => Just(20usize), 1 => Just(60usize)];
            let more = proptest::collection::vec((llr(), limit()), 0..=2);
            (llr(), limit(), more, Just(h), 0..4u8)
        })
        .prop_map(|(llrs, limit, more, h, emit)| Case { h, llrs: llrs.into_iter().map(Fx).collect(), limit, more: more.into_iter().map(|(l, m)| (l.into_iter().map(Fx).collect(), m)).collect(), emit })
        .boxed()
}

fn compare(which: &str, got: &Out, want: &Out, limit: usize, sign_ok: bool) -> Check {
    // also for a failure without any iteration: the textbook schedule then returns the hard decisions
    // (by the arithmetic's own quantiser and decision rule) of the channel LLRs
    let _ = (limit, sign_ok);
    let same = got == want;
    if !same {
        return Err(Fail::new("schedule-mismatch", format!("{which}: generic decoder returned {got:?}, the textbook schedule gives {want:?}")));
    }
    Ok(())
}

fn check_reference(case: &Case, p: &mut Probe) -> Check {
    let hs = case.h.to_sparse();
    let mut calls: Vec<(Vec<f64>, usize)> = vec![(fx_vec(&case.llrs), case.limit)];
    calls.extend(case.more.iter().map(|(l, m)| (fx_vec(l), *m)));
    let mut max_it = 0;
    let mut any_sign_ok = false;
    macro_rules! one {
        ($arith:expr, $refarith:expr, $name:expr) => {{
            // one decoder object per (arithmetic, schedule), reused for the whole call history;
            // the reference interpreter is stateless
            let mut fl = flooding::Decoder::new(hs.clone(), $arith);
            let mut la = horizontal_layered::Decoder::new(hs.clone(), $arith);
            for (ci, (llrs, limit)) in calls.iter().enumerate() {
                let sign_ok = case.h.syndrome_ok(&super::decgen::sign_pattern(llrs));
                any_sign_ok |= sign_ok;
                let got = guarded(|| fl.decode(llrs, *limit)).map_err(|e| Fail::new("panic", format!("flooding/{} call {ci}: panicked: {e}", $name)))?;
                let want = ref_flooding(&mut $refarith, &case.h, llrs, *limit);
                compare(&format!("flooding/{} call {ci}", $name), &got, &want, *limit, sign_ok)?;
                max_it = max_it.max(match &want { Ok(o) => o.iterations, Err(o) => o.iterations });
                let got = guarded(|| la.decode(llrs, *limit)).map_err(|e| Fail::new("panic", format!("layered/{} call {ci}: panicked: {e}", $name)))?;
                let want = ref_layered(&mut $refarith, &case.h, llrs, *limit);
                compare(&format!("layered/{} call {ci}", $name), &got, &want, *limit, sign_ok)?;
                max_it = max_it.max(match &want { Ok(o) => o.iterations, Err(o) => o.iterations });
                p.inner += 2;
                // "unlimited": a converged call repeated with an iteration limit near the top of the
                // usize range returns the same result (the textbook schedule stops at convergence)
                if want.is_ok() && (ci + case.emit as usize) % 3 == 0 {
                    let huge = [usize::MAX, usize::MAX - 1, isize::MAX as usize, 1usize << 32][(ci + case.limit) % 4];
                    let want_f = ref_flooding(&mut $refarith, &case.h, llrs, *limit);
                    if want_f.is_ok() {
                        let got = guarded(|| fl.decode(llrs, huge)).map_err(|e| Fail::new("panic", format!("flooding/{} call {ci} repeated with limit {huge}: panicked: {e}", $name)))?;
                        compare(&format!("flooding/{} call {ci} repeated with limit {huge}", $name), &got, &want_f, huge, sign_ok)?;
                    }
                    let got = guarded(|| la.decode(llrs, huge)).map_err(|e| Fail::new("panic", format!("layered/{} call {ci} repeated with limit {huge}: panicked: {e}", $name)))?;
                    compare(&format!("layered/{} call {ci} repeated with limit {huge}", $name), &got, &want, huge, sign_ok)?;
                    p.class("converged-call-repeated-with-huge-limit");
                }
            }
        }};
    }
    // the decoders under test get an arithmetic that emits in the generated order; the reference
    // interpreter files every message under (source, destination), so emission order cannot matter
    one!(IntMinSum(case.emit), IntMinSum(0), "IntMinSum");
    one!(FreeAlgebra(case.emit), FreeAlgebra(0), "FreeAlgebra");
    p.class_if(case.emit % 4 != 0, "emission-order-permuted");
    p.class_if(calls.iter().any(|(l, _)| l.iter().any(|x| x.is_infinite())), "infinite-llr");
    p.class_if(case.h.row_lists().iter().any(|r| r.len() >= 33), "check-degree>=33");
    let deg2 = case.h.col_lists().iter().any(|c| c.len() >= 2);
    p.class_if(max_it >= 3, "iterations>=3");
    p.class_if(max_it >= 2, "iterations>=2");
    p.class_if(case.h.row_lists().iter().any(|r| r.len() <= 1), "has-check-degree<=1");
    p.class_if(any_sign_ok, "zero-iteration");
    p.class_if(calls.len() >= 2, "decoder-reused");
    if max_it >= 2 && deg2 {
        p.nontrivial();
    }
    Ok(())
}

// ---------------------------------------------------------------------------
// trace structure with built-in arithmetics

fn sorted(mut v: Vec<usize>) -> Vec<usize> {
    v.sort_unstable();
    v
}

fn check_trace_one<A>(name: &str, arith: A, case: &super::decgen::DecCase, layered: bool) -> Check
where
    A: DecoderArithmetic + 'static,
    A::Llr: ToF64,
    A::VarLlr: ToF64,
{
    let llrs = fx_vec(&case.llrs);
    let h = &case.h;
    let (tr, log) = Tracing::new(arith);
    let res = if layered {
        let mut d = horizontal_layered::Decoder::new(h.to_sparse(), tr);
        guarded(|| d.decode(&llrs, case.limit))
    } else {
        let mut d = flooding::Decoder::new(h.to_sparse(), tr);
        guarded(|| d.decode(&llrs, case.limit))
    }
    .map_err(|e| Fail::new("panic", format!("{name}: panicked: {e}")))?;
    let events = log.lock().unwrap().clone();
    let its = match &res {
        Ok(o) => o.iterations,
        Err(o) => o.iterations,
    };
    let (r, n) = (h.rows, h.cols);
    let mut row_supports: Vec<Vec<usize>> = h.row_lists();
    let mut col_supports: Vec<Vec<usize>> = h.col_lists();
    if layered {
        ensure!(events.len() == its * r, "trace-count", "{name}: {} layered updates recorded for {its} iterations of {r} checks", events.len());
        for (k, e) in events.iter().enumerate() {
            let Event::Layer { dests, .. } = e else {
                return Err(Fail::new("trace-kind", format!("{name}: flooding primitive called by the layered decoder")));
            };
            let row = k % r;
            ensure!(sorted(dests.clone()) == row_supports[row], "trace-row-order", "{name}: update {k} touches variables {dests:?}, expected check {row} with support {:?} (row order, one update per check per iteration)", row_supports[row]);
        }
    } else {
        ensure!(events.len() == its * (r + n), "trace-count", "{name}: {} calls recorded for {its} iterations of {r} checks + {n} variables", events.len());
        row_supports.sort();
        col_supports.sort();
        for it in 0..its {
            let chunk = &events[it * (r + n)..(it + 1) * (r + n)];
            let mut seen_rows = Vec::new();
            for e in &chunk[..r] {
                let Event::Check { sources, dests } = e else {
                    return Err(Fail::new("trace-phase", format!("{name}: iteration {}: a variable update ran before all check nodes were processed", it + 1)));
                };
                ensure!(sorted(dests.clone()) == sorted(sources.clone()), "trace-one-per-neighbour", "{name}: check call with sources {sources:?} sent to {dests:?}");
                seen_rows.push(sorted(sources.clone()));
            }
            seen_rows.sort();
            ensure!(seen_rows == row_supports, "trace-rows", "{name}: iteration {}: check calls cover {seen_rows:?}, the rows are {row_supports:?}", it + 1);
            let mut seen_cols = Vec::new();
            for e in &chunk[r..] {
                let Event::Var { sources, dests, .. } = e else {
                    return Err(Fail::new("trace-phase", format!("{name}: iteration {}: a check update ran in the variable phase", it + 1)));
                };
                ensure!(sorted(dests.clone()) == sorted(sources.clone()), "trace-one-per-neighbour", "{name}: variable call with sources {sources:?} sent to {dests:?}");
                seen_cols.push(sorted(sources.clone()));
            }
            seen_cols.sort();
            ensure!(seen_cols == col_supports, "trace-cols", "{name}: iteration {}: variable calls cover {seen_cols:?}, the columns are {col_supports:?}", it + 1);
        }
    }
    super::c01::check_one(name, &res, h, &llrs, case.limit)?;
    Ok(())
}

fn check_trace(case: &super::decgen::DecCase, p: &mut Probe) -> Check {
    macro_rules! all {
        ($($t:ident),*) => {
            $(
                check_trace_one(concat!("flooding/Tracing<", stringify!($t), ">"), <$t>::new(), case, false)?;
                check_trace_one(concat!("layered/Tracing<", stringify!($t), ">"), <$t>::new(), case, true)?;
                p.inner += 2;
            )*
        };
    }
    crate::with_arith_types!(all);
    let llrs = fx_vec(&case.llrs);
    if !case.h.syndrome_ok(&super::decgen::sign_pattern(&llrs)) && case.limit >= 2 {
        p.nontrivial();
        p.class("iterated");
    }
    Ok(())
}

// ---------------------------------------------------------------------------
// exactness on forests

#[derive(Debug, Clone, Serialize, Deserialize)]
pub struct ForestCase {
    /// forest part (checks x variables); the gadget (3 variables, 1 check) is appended by the check
    pub h: Mat,
    pub llrs: Vec<Fx>,
}

fn forest_strategy(_t: Tier) -> BoxedStrategy<ForestCase> {
    (2usize..=12)
        .prop_flat_map(|nv| {
            (
                Just(nv),
                Just((0..nv).collect::<Vec<usize>>()).prop_shuffle(),
                proptest::collection::vec((any::<u16>(), 1usize..=3, prop::bool::weighted(0.12)), nv),
                proptest::collection::vec(-4.0f64..4.0, nv),
                // one erased bit (channel LLR exactly 0.0, as a punctured position has) in a third of the cases
                proptest::option::weighted(0.33, any::<u16>()),
            )
        })
        .prop_map(|(nv, order, steps, mut llrs, erase)| {
            if let Some(a) = erase {
                llrs[idx(a, nv)] = 0.0;
            }
            let mut placed: Vec<usize> = vec![order[0]];
            let mut next = 1;
            let mut rows: Vec<Vec<usize>> = Vec::new();
            let mut si = 0;
            while next < nv {
                let (attach, newc, newtree) = steps[si % steps.len()];
                si += 1;
                if newtree {
                    placed.push(order[next]);
                    next += 1;
                    continue;
                }
                let a = placed[idx(attach, placed.len())];
                let k = newc.min(nv - next);
                let mut row = vec![a];
                for _ in 0..k {
                    row.push(order[next]);
                    placed.push(order[next]);
                    next += 1;
                }
                rows.push(row);
            }
            let r = rows.len();
            ForestCase { h: Mat::from_rows(r, nv, &rows), llrs: llrs.into_iter().map(Fx).collect() }
        })
        .boxed()
}

/// forests with one check of high degree (13..=70 variables in one check, beyond any lane, mask or
/// batch width), further small checks attached as in `forest_strategy`
fn star_strategy(_t: Tier) -> BoxedStrategy<ForestCase> {
    (13usize..=70, 0usize..=10)
        .prop_flat_map(|(hub, more)| {
            let nv = hub + more;
            (Just((hub, nv)), Just((0..nv).collect::<Vec<usize>>()).prop_shuffle(), proptest::collection::vec((any::<u16>(), 1usize..=3), more.max(1)), proptest::collection::vec(-4.0f64..4.0, nv), proptest::option::weighted(0.33, any::<u16>()))
        })
        .prop_map(|((hub, nv), order, steps, mut llrs, erase)| {
            if let Some(a) = erase {
                llrs[idx(a, nv)] = 0.0;
            }
            let mut rows: Vec<Vec<usize>> = vec![order[..hub].to_vec()];
            let mut placed: Vec<usize> = order[..hub].to_vec();
            let mut next = hub;
            let mut si = 0;
            while next < nv {
                let (attach, newc) = steps[si % steps.len()];
                si += 1;
                let a = placed[idx(attach, placed.len())];
                let k = newc.min(nv - next);
                let mut row = vec![a];
                for _ in 0..k {
                    row.push(order[next]);
                    placed.push(order[next]);
                    next += 1;
                }
                rows.push(row);
            }
            let r = rows.len();
            ForestCase { h: Mat::from_rows(r, nv, &rows), llrs: llrs.into_iter().map(Fx).collect() }
        })
        .boxed()
}

/// exact posterior LLRs by enumeration of all codewords
fn posteriors(h: &Mat, llrs: &[f64]) -> Vec<f64> {
    let basis = h.to_bits().nullspace();
    let n = h.cols;
    let k = basis.len();
    let mut metrics: Vec<(Vec<u8>, f64)> = Vec::with_capacity(1 << k);
    for m in 0u32..(1u32 << k) {
        let mut c = vec![0u8; n];
        for (i, b) in basis.iter().enumerate() {
            if (m >> i) & 1 == 1 {
                for (x, y) in c.iter_mut().zip(b) {
                    *x ^= *y;
                }
            }
        }
        let metric: f64 = c.iter().zip(llrs).map(|(&b, &l)| if b == 0 { l / 2.0 } else { -l / 2.0 }).sum();
        metrics.push((c, metric));
    }
    let lse = |it: &mut dyn Iterator<Item = f64>| -> f64 {
        let v: Vec<f64> = it.collect();
        if v.is_empty() {
            return f64::NEG_INFINITY;
        }
        let mx = v.iter().cloned().fold(f64::NEG_INFINITY, f64::max);
        mx + v.iter().map(|x| (x - mx).exp()).sum::<f64>().ln()
    };
    (0..n)
        .map(|v| {
            let a = lse(&mut metrics.iter().filter(|(c, _)| c[v] == 0).map(|(_, m)| *m));
            let b = lse(&mut metrics.iter().filter(|(c, _)| c[v] == 1).map(|(_, m)| *m));
            a - b
        })
        .collect()
}

/// Own sum-product on the forest (f64, stable box-plus) run to the fixed point; returns the
/// posterior LLRs and the first-order error unit of the worst edge:
/// max over check outputs of (d + sum_j phi(|x_j|)) * sinh(|y|) + d + |y| + max|x_j|
/// (conditioning of phi / atanh at the output, cancellation in the phi sum, input magnitudes).
fn own_bp(h: &Mat, llrs: &[f64]) -> (Vec<f64>, f64) {
    let rows = h.row_lists();
    let cols = h.col_lists();
    let mut v2c: BTreeMap<(usize, usize), f64> = BTreeMap::new();
    let mut c2v: BTreeMap<(usize, usize), f64> = BTreeMap::new();
    for (c, row) in rows.iter().enumerate() {
        for &v in row {
            v2c.insert((c, v), llrs[v]);
            c2v.insert((c, v), 0.0);
        }
    }
    let phi = |x: f64| -((0.5 * x.abs().max(1e-30)).tanh().ln());
    let mut unit = 1.0f64;
    let iters = 2 * (h.rows + h.cols);
    for it in 0..iters {
        for (c, row) in rows.iter().enumerate() {
            let d = row.len() as f64;
            let sum_phi: f64 = row.iter().map(|&v| phi(v2c[&(c, v)])).sum();
            let maxin = row.iter().map(|&v| v2c[&(c, v)].abs()).fold(0.0, f64::max);
            for &v in row {
                let mut acc: Option<f64> = None;
                for &w in row {
                    if w != v {
                        let x = v2c[&(c, w)];
                        acc = Some(match acc {
                            None => x,
                            Some(a) => super::c04::boxplus(a, x),
                        });
                    }
                }
                let y = acc.unwrap_or(0.0);
                c2v.insert((c, v), y);
                if it + 1 == iters {
                    let u = (d + sum_phi) * y.abs().min(700.0).sinh() + d + y.abs() + maxin;
                    unit = unit.max(u);
                }
            }
        }
        for (v, col) in cols.iter().enumerate() {
            let total: f64 = llrs[v] + col.iter().map(|&c| c2v[&(c, v)]).sum::<f64>();
            for &c in col {
                v2c.insert((c, v), total - c2v[&(c, v)]);
            }
        }
    }
    let post = (0..h.cols).map(|v| llrs[v] + cols[v].iter().map(|&c| c2v[&(c, v)]).sum::<f64>()).collect();
    (post, unit)
}

fn tree_depth_ge2(h: &Mat) -> bool {
    // some variable at distance >= 4 from another variable (two checks deep)
    let g = Graph::from_mat(h);
    for v in 0..h.cols {
        let d = g.dist(h.rows + v, None);
        if d.iter().flatten().any(|&x| x >= 4) {
            return true;
        }
    }
    false
}

fn exact_one<A>(name: &str, arith: A, eps: f64, h: &Mat, llrs: &[f64], post: &[f64], unit: f64, layered: bool, p: &mut Probe) -> Check
where
    A: DecoderArithmetic + 'static,
    A::Llr: ToF64,
    A::VarLlr: ToF64,
{
    let limit = 2 * (h.rows + h.cols);
    let (tr, log) = Tracing::new(arith);
    let res = if layered {
        let mut d = horizontal_layered::Decoder::new(h.to_sparse(), tr);
        guarded(|| d.decode(llrs, limit))
    } else {
        let mut d = flooding::Decoder::new(h.to_sparse(), tr);
        guarded(|| d.decode(llrs, limit))
    }
    .map_err(|e| Fail::new("panic", format!("{name}: panicked: {e}")))?;
    ensure!(res.is_err(), "gadget", "{name}: the decoder stopped early although the gadget component cannot be satisfied by bitwise decisions: {res:?}");
    let events = log.lock().unwrap();
    let n = h.cols;
    let mut got = vec![f64::NAN; n];
    if layered {
        ensure!(events.len() == limit * h.rows, "exact-count", "{name}: {} updates for {limit} iterations", events.len());
        if let Some(Event::Layer { vars_after, .. }) = events.last() {
            got.clone_from(vars_after);
        }
    } else {
        ensure!(events.len() == limit * (h.rows + n), "exact-count", "{name}: {} calls for {limit} iterations", events.len());
        // the variable calls of the last iteration; the variable is identified by its (distinct) channel LLR
        for e in &events[events.len() - n..] {
            if let Event::Var { input, ret, .. } = e {
                let cands: Vec<usize> = (0..n).filter(|&v| (llrs[v] as f32 as f64 == *input) || llrs[v] == *input).collect();
                // only the two symmetric gadget variables (LLR 1.0) can share a value
                for c in cands {
                    got[c] = *ret;
                }
            }
        }
    }
    let e_edges = h.set().len() as f64;
    for v in 0..n {
        ensure!(!got[v].is_nan(), "exact-missing", "{name}: no LLR recorded for variable {v}");
        // every edge contributes at most one error unit (the check rule is 1-Lipschitz in each
        // input, variable nodes add); the channel LLR is rounded once to the working precision
        let tol = 16.0 * eps * ((e_edges + 1.0) * unit + post[v].abs() + 4.0);
        let err = (got[v] - post[v]).abs();
        p.metric(if eps < 1e-10 { "f64_err_over_tol" } else { "f32_err_over_tol" }, err / tol);
        p.metric(if eps < 1e-10 { "f64_rel_err" } else { "f32_rel_err" }, err / (1.0 + post[v].abs()));
        ensure!(err <= tol, "not-posterior", "{name}: variable {v}: LLR after {limit} iterations is {}, the true posterior LLR is {} (|diff| {err:e} > tol {tol:e})", got[v], post[v]);
    }
    Ok(())
}

fn check_forest(case: &ForestCase, p: &mut Probe) -> Check {
    // append the gadget: variables n, n+1, n+2 in one check with LLRs (1, 1, -0.5)
    let mut h = case.h.clone();
    let n0 = h.cols;
    let r0 = h.rows;
    h.cols += 3;
    h.rows += 1;
    for j in 0..3 {
        h.ones.push((r0, n0 + j));
    }
    let mut llrs = fx_vec(&case.llrs);
    llrs.extend([1.0, 1.0, -0.5]);
    // distinct channel LLRs (also after rounding to f32) so that variables can be told apart in the trace
    let mut seen = std::collections::BTreeSet::new();
    for &l in &llrs[..n0 + 1] {
        if l as f32 == -0.5 || !seen.insert((l as f32).to_bits()) {
            p.class("skipped-duplicate-llr");
            return Ok(());
        }
    }
    let g = Graph::from_mat(&h);
    ensure!(g.girth().is_none(), "generator", "generated graph is not a forest");
    // own sum-product to the fixed point: must reproduce the brute-force posteriors (self-check of
    // the oracle) and supplies the conditioning of the worst edge for the tolerance
    let (own, unit) = own_bp(&h, &llrs);
    // codes of dimension above 14 (a check of high degree) are not enumerated: the own sum-product,
    // exact on a forest and validated against the enumeration on every smaller case, is the oracle
    let enumerate = h.cols - h.rows <= 14;
    p.class_if(!enumerate, "oracle-own-sum-product");
    let post = if enumerate { posteriors(&h, &llrs) } else { own.clone() };
    for v in 0..h.cols {
        if (own[v] - post[v]).abs() > 1e-9 * (1.0 + post[v].abs()) + 64.0 * f64::EPSILON * unit * (h.set().len() as f64 + 1.0) {
            return Err(Fail::new(INCONCLUSIVE, format!("oracle self-check failed: own sum-product gives {} for variable {v}, enumeration of all codewords gives {}", own[v], post[v])));
        }
    }
    p.metric("error_unit_max", unit);
    // the arithmetic objects come from new() or from Default::default() (both are public constructors)
    let dflt = (case.h.ones.len() + case.llrs.len()) % 2 == 1;
    p.class_if(dflt, "arithmetic-built-by-default");
    exact_one("flooding/Phif64", super::impls::mk(Phif64::new, dflt), f64::EPSILON, &h, &llrs, &post, unit, false, p)?;
    exact_one("layered/Phif64", super::impls::mk(Phif64::new, dflt), f64::EPSILON, &h, &llrs, &post, unit, true, p)?;
    exact_one("flooding/Tanhf64", super::impls::mk(Tanhf64::new, dflt), f64::EPSILON, &h, &llrs, &post, unit, false, p)?;
    exact_one("layered/Tanhf64", super::impls::mk(Tanhf64::new, dflt), f64::EPSILON, &h, &llrs, &post, unit, true, p)?;
    exact_one("flooding/Phif32", super::impls::mk(Phif32::new, dflt), f32::EPSILON as f64, &h, &llrs, &post, unit, false, p)?;
    exact_one("layered/Phif32", super::impls::mk(Phif32::new, dflt), f32::EPSILON as f64, &h, &llrs, &post, unit, true, p)?;
    exact_one("flooding/Tanhf32", super::impls::mk(Tanhf32::new, dflt), f32::EPSILON as f64, &h, &llrs, &post, unit, false, p)?;
    exact_one("layered/Tanhf32", super::impls::mk(Tanhf32::new, dflt), f32::EPSILON as f64, &h, &llrs, &post, unit, true, p)?;
    p.inner += 8;
    let deep = tree_depth_ge2(&case.h);
    p.class_if(deep, "depth>=2");
    p.class_if(case.llrs.iter().any(|l| l.0 == 0.0), "erased-bit");
    p.class_if(n0 >= 6, "tree-variables>=6");
    if deep {
        p.nontrivial();
    }
    Ok(())
}

/// shapes no generator above produces: matrices with a dimension of zero (the textbook schedule on
/// no variables or no checks: success without an iteration), and a cycle-free 2 x 65 538 matrix with
/// a check of 65 537 neighbours (a row weight beyond 16 bits) decoded by the exact arithmetics, where
/// one weak wrong bit is corrected by its 65 536 strong neighbours in the first iteration
fn extreme_cases(_t: Tier) -> Vec<u8> {
    vec![0, 1, 2, 3, 4]
}

fn check_extreme(which: &u8, p: &mut Probe) -> Check {
    if *which <= 3 {
        let (r, n) = [(0usize, 0usize), (3, 0), (0, 5), (1, 0)][*which as usize];
        let llrs: Vec<Fx> = (0..n).map(|i| Fx(if i % 2 == 0 { 1.5 } else { -2.0 })).collect();
        let case = Case { h: Mat::new(r, n), llrs: llrs.clone(), limit: 3, more: vec![(llrs.clone(), 0), (llrs, 7)], emit: *which };
        p.class("a-dimension-of-zero");
        return check_reference(&case, p);
    }
    let n = 65_538usize;
    let mut h = Mat::new(2, n);
    for j in 0..=65_536 {
        h.ones.push((0, j));
    }
    h.ones.push((1, 65_536));
    h.ones.push((1, 65_537));
    let hs = h.to_sparse();
    let mut llrs = vec![30.0f64; n];
    llrs[1234] = -1.0;
    macro_rules! both {
        ($arith:expr, $name:expr) => {{
            let mut fl = flooding::Decoder::new(hs.clone(), $arith);
            let mut la = horizontal_layered::Decoder::new(hs.clone(), $arith);
            for (sched, got) in [("flooding", guarded(|| fl.decode(&llrs, 5))), ("layered", guarded(|| la.decode(&llrs, 5)))] {
                let got = got.map_err(|e| Fail::new("panic", format!("{sched}/{}: panicked on a check of 65 537 neighbours: {e}", $name)))?;
                let ok = got.as_ref().is_ok_and(|o| o.iterations == 1 && o.codeword.len() == n && o.codeword.iter().all(|&b| b == 0));
                let show = match &got {
                    Ok(o) => format!("Ok after {} iterations with {} ones", o.iterations, o.codeword.iter().filter(|&&b| b == 1).count()),
                    Err(o) => format!("Err after {} iterations with {} ones", o.iterations, o.codeword.iter().filter(|&&b| b == 1).count()),
                };
                ensure!(ok, "heavy-row", "{sched}/{}: 2 x 65 538 cycle-free matrix with a check of 65 537 neighbours, all LLRs +30 but one of -1: the textbook schedule corrects the weak bit in the first iteration (extrinsic LLR about +19), the decoder returns {show}", $name);
                p.inner += 1;
            }
        }};
    }
    both!(Phif64::new(), "Phif64");
    both!(Tanhf64::new(), "Tanhf64");
    p.class("check-of-65537-neighbours");
    p.nontrivial();
    Ok(())
}

pub fn property() -> Property {
    Property {
        id: "C03",
        subs: vec![
            Box::new(Sub {
                name: "reference",
                rule: "generated (H, LLR, limit): H 1..=8 x 1..=12 (one case in 25: 1..=5 x 33..=80 with a check of degree >= 33) with arbitrary rows (degree-0 and degree-1 checks and isolated variables allowed), LLRs from the C01 catalogue plus +-infinity (one component in thirty), limits {0,1,2,3,6,20,60} (a third of the converged calls repeated with limit usize::MAX, usize::MAX-1, isize::MAX or 2^32 and compared again), 1..=3 calls on the same decoder object (each compared with the stateless reference); flooding::Decoder<A> and horizontal_layered::Decoder<A> with the checker's exact integer min-sum (wrapping i64) and free hash-term algebra (order-independent, separates routing/initialisation/staleness) against an own edge-map interpreter of the two textbook schedules: identical (verdict, word, iterations), also for limit 0 on a non-codeword (word = the arithmetic's hard decisions of the quantised channel LLRs); non-trivial = >= 2 iterations executed and a variable of degree >= 2; inner = decoder runs compared",
                cases: |t| t.pick(300_000, 10_000_000),
                strategy: case_strategy,
                check: check_reference,
                health: &[("iterations>=3", 0.30)],
            }),
            Box::new(EnumSub {
                name: "extreme-shapes",
                rule: "fixed: matrices 0 x 0, 3 x 0, 0 x 5, 1 x 0 through the reference comparison above (three calls each, limits 3, 0, 7); a cycle-free 2 x 65 538 matrix with a check of 65 537 neighbours, LLRs +30 but one of -1, Phif64 and Tanhf64 in both schedules: success after exactly one iteration with the all-zero word",
                cases: extreme_cases,
                check: check_extreme,
                exhaustive: false,
            }),
            Box::new(Sub {
                name: "trace",
                rule: "Tracing<A> wrappers around all 24 built-in arithmetics in both generic decoders on C01-style inputs: per iteration exactly one check call per row whose source set is the row support (flooding: all checks before all variables, one variable call per column with the column support; layered: rows in order 0..r-1), one message per neighbour, call count = iterations x nodes, no call after the result; plus the C01 validity predicate; non-trivial = iterative path with limit >= 2",
                cases: |t| t.pick(20_000, 500_000),
                strategy: |_| super::decgen::dec_case(6, 10),
                check: check_trace,
                health: &[],
            }),
            Box::new(Sub {
                name: "exactness",
                rule: "random bipartite forests (2..=12 variables, checks of degree 2..=4 attached to existing trees, occasionally a new tree; acyclicity asserted with the own girth oracle) plus a 3-variable single-check gadget with LLRs (1, 1, -0.5) that forces the run to the limit; channel LLRs uniform in +-4, in a third of the cases one of them exactly 0.0 (an erased / punctured bit); Tracing<Phif64|Tanhf64|Phif32|Tanhf32> in both schedules for 2 x (number of nodes) iterations; recorded per-bit LLRs vs brute-force posteriors over all codewords within 16*eps*((E+1)*U + |L| + 4), U = worst-edge error unit (d + sum phi(|x_j|)) sinh|y| + d + |y| + max|x_j| taken from an own sum-product run that is itself checked against the enumeration; non-trivial = a tree two checks deep",
                cases: |t| t.pick(40_000, 1_500_000),
                strategy: forest_strategy,
                check: check_forest,
                health: &[("depth>=2", 0.50)],
            }),
            Box::new(Sub {
                name: "exactness-high-degree",
                rule: "forests with one check of degree 13..=70 and up to ten further variables on small checks, the same gadget, channel LLRs and tolerance; the code dimension is too large to enumerate, so the oracle is the own sum-product run (exact on a forest; the same routine is checked against the enumeration of all codewords in every case of the 'exactness' sub-check)",
                cases: |t| t.pick(1_500, 100_000),
                strategy: star_strategy,
                check: check_forest,
                health: &[],
            }),
        ],
        assumptions: vec![
            "the reference applies the zero-iteration shortcut on the raw input signs, as C01 requires of every decoder".into(),
            "call-level value routing is checked through the order-independent checker arithmetics, not through the float tracing wrappers (float results may legitimately depend on message presentation order)".into(),
        ],
    }
}
