//! C15 — interleaving and puncturing are exact, invertible re-orderings.

use crate::common::{LAYOUTS, layout_name, with_layout};
use crate::engine::*;
use crate::ensure;
use ldpc_toolbox::gf2::GF2;
use ldpc_toolbox::simulation::interleaving::Interleaver;
use ldpc_toolbox::simulation::puncturing::Puncturer;
use ndarray::Array1;
use num_traits::{One, Zero};
use proptest::prelude::*;
use serde::{Deserialize, Serialize};

// an element type that is Clone but not Copy and owns no heap memory: every construction
// (incl. clones) and every drop is counted per thread, so that an implementation that duplicates
// or forgets elements bit-wise shows up as an imbalance instead of as undefined behaviour
thread_local! {
    static LIVE: std::cell::Cell<i64> = const { std::cell::Cell::new(0) };
}

#[derive(Debug, PartialEq)]
pub struct Counted(pub u32);

impl Counted {
    fn new(v: u32) -> Counted {
        LIVE.with(|l| l.set(l.get() + 1));
        Counted(v)
    }
}

impl Clone for Counted {
    fn clone(&self) -> Counted {
        Counted::new(self.0)
    }
}

impl Drop for Counted {
    fn drop(&mut self) {
        LIVE.with(|l| l.set(l.get() - 1));
    }
}

impl std::ops::Add for Counted {
    type Output = Counted;
    fn add(self, o: Counted) -> Counted {
        Counted::new(self.0.wrapping_add(o.0))
    }
}

impl Zero for Counted {
    fn zero() -> Counted {
        Counted::new(0)
    }
    fn is_zero(&self) -> bool {
        self.0 == 0
    }
}

#[derive(Debug, Clone, Serialize, Deserialize)]
pub struct IlCase {
    pub columns: usize,
    pub rows: usize,
    pub backward: bool,
    pub salt: u32,
    /// memory layout of the arrays handed to `interleave` (see common::with_layout)
    #[serde(default)]
    pub layout: u8,
    /// > 0: the same interleaver object is first used on a block of `columns * warm_rows` elements
    #[serde(default)]
    pub warm_rows: usize,
}

fn il_all(t: Tier) -> Vec<IlCase> {
    let max = t.pick(12, 40);
    let mut v = Vec::new();
    for columns in 1..=max {
        for rows in 1..=max {
            for backward in [false, true] {
                v.push(IlCase { columns, rows, backward, salt: 3, layout: 0, warm_rows: 0 });
                // the same shape again through a non-standard layout on an object that has already
                // processed a block of another length
                let layout = 1 + ((columns + 2 * rows + usize::from(backward)) % (LAYOUTS as usize - 1)) as u8;
                v.push(IlCase { columns, rows, backward, salt: 5, layout, warm_rows: 1 + (rows + columns) % 7 });
            }
        }
    }
    v
}

fn il_strategy(_t: Tier) -> BoxedStrategy<IlCase> {
    let dim = || prop_oneof![4 => Just(1usize), 10 => 1usize..=12, 4 => 13usize..=64, 1 => 65usize..=1100];
    let small = (dim(), dim(), any::<bool>(), any::<u32>(), 0..LAYOUTS, prop_oneof![3 => Just(0usize), 2 => 1usize..=12]).prop_map(|(columns, rows, backward, salt, layout, warm_rows)| IlCase { columns, rows, backward, salt, layout, warm_rows });
    // blocks of more than 2^16 elements: few columns and very many rows, or the other way round
    let big = (prop_oneof![Just(1usize), Just(2), Just(3), Just(5)], prop_oneof![3 => 22_000usize..=35_000, 1 => prop_oneof![Just(65_535usize), Just(65_536), Just(65_537)], 1 => 65_538usize..=70_000], any::<bool>(), any::<bool>(), any::<u32>(), 0..LAYOUTS).prop_map(|(a, b, swap, backward, salt, layout)| {
        let (columns, rows) = if swap { (b, a) } else { (a, b) };
        IlCase { columns, rows, backward, salt, layout, warm_rows: 0 }
    });
    prop_oneof![250 => small, 2 => big].boxed()
}

fn check_il(c: &IlCase, p: &mut Probe) -> Check {
    let (cc, rr) = (c.columns, c.rows);
    let n = cc * rr;
    let il = Interleaver::new(cc, c.backward);
    let lay = c.layout;
    // history: a caller's mistake first - a block whose length is not a multiple of the column count
    // (the documented outcome is a panic; it is caught, as a supervisor of worker threads would, and
    // ignored): the well-formed calls that follow on this object and in this process are unaffected
    if cc >= 2 && c.salt & 0x18000 == 0x08000 {
        let bad: Vec<u32> = (0..(n + 1) as u32).collect();
        let _ = guarded(|| il.interleave(&Array1::from_vec(bad.clone())).to_vec());
        let _ = guarded(|| il.deinterleave(&bad));
        p.class("after-a-call-with-an-indivisible-length");
    }
    if c.warm_rows > 0 && c.warm_rows != rr {
        // history: the object first processes a block of another length (both directions of use)
        let (r0, n0) = (c.warm_rows, cc * c.warm_rows);
        let x0: Vec<u32> = (0..n0 as u32).map(|i| i ^ 0x5a5a_0000).collect();
        let y0 = guarded(|| il.interleave(&Array1::from_vec(x0.clone())).to_vec()).map_err(|e| Fail::new("panic", format!("interleave panicked on the first block: {e}")))?;
        ensure!(y0.len() == n0, "length", "interleave changed the length to {}", y0.len());
        for r in 0..r0 {
            for k in 0..cc {
                let src = if c.backward { (cc - 1 - k) * r0 + r } else { k * r0 + r };
                ensure!(y0[r * cc + k] == x0[src], "permutation", "columns {cc}, rows {r0}, backward {}: output[{}] should be input[{src}]", c.backward, r * cc + k);
            }
        }
        let b0 = guarded(|| il.deinterleave(&y0)).map_err(|e| Fail::new("panic", format!("deinterleave panicked on the first block: {e}")))?;
        ensure!(b0 == x0, "inverse", "deinterleave(interleave(x)) != x for columns {cc}, rows {r0}");
        p.class("object-reused-with-another-length");
    }
    // a clone taken after first use serves the second half of the checks
    let il_clone = il.clone();
    // distinct labels: any misplacement is visible
    let x: Vec<u32> = (0..n).map(|i| ((splitmix(c.salt as u64 + i as u64) as u32) & 0xffff_0000) | i as u32).collect();
    let y = guarded(|| with_layout(&x, 0xdead_beef, lay, |v| il.interleave(&v).to_vec())).map_err(|e| Fail::new("panic", format!("interleave panicked ({}): {e}", layout_name(lay))))?;
    ensure!(y.len() == n, "length", "interleave changed the length to {}", y.len());
    for r in 0..rr {
        for k in 0..cc {
            let src = if c.backward { (cc - 1 - k) * rr + r } else { k * rr + r };
            ensure!(y[r * cc + k] == x[src], "permutation", "columns {cc}, rows {rr}, backward {}, input layout {}, earlier block rows {}: output[{}] should be input[{src}]", c.backward, layout_name(lay), c.warm_rows, r * cc + k);
        }
    }
    // one case in eight: the object built (and possibly used) on this thread deinterleaves on another one
    let moved = c.salt & 0x7000 == 0x2000;
    p.class_if(moved, "object-used-on-another-thread");
    let back = guarded(|| if moved { crate::common::on_other_thread(|| il.deinterleave(&y)) } else { il.deinterleave(&y) }).map_err(|e| Fail::new("panic", format!("deinterleave panicked: {e}")))?;
    ensure!(back == x, "inverse", "deinterleave(interleave(x)) != x for columns {cc}, rows {rr}, backward {}", c.backward);
    let z = il.deinterleave(&x);
    ensure!(il.interleave(&Array1::from_vec(z)).to_vec() == x, "inverse", "interleave(deinterleave(y)) != y for columns {cc}, rows {rr}, backward {}", c.backward);
    // other element types: f64 (incl. -0.0) and GF2
    let xf: Vec<f64> = x.iter().map(|&v| if v % 7 == 0 { -0.0 } else { v as f64 * 0.5 - 9.0 }).collect();
    let il = il_clone;
    let yf = guarded(|| with_layout(&xf, f64::NAN, lay, |v| il.interleave(&v).to_vec())).map_err(|e| Fail::new("panic", format!("interleave panicked ({}): {e}", layout_name(lay))))?;
    ensure!(yf.len() == n, "length", "interleave changed the length to {}", yf.len());
    for (i, v) in yf.iter().enumerate() {
        let (r, k) = (i / cc, i % cc);
        let src = if c.backward { (cc - 1 - k) * rr + r } else { k * rr + r };
        ensure!(v.to_bits() == xf[src].to_bits(), "permutation-f64", "f64 element {i} misplaced or altered");
    }
    let bf = il.deinterleave(&yf);
    ensure!(bf.iter().zip(&xf).all(|(a, b)| a.to_bits() == b.to_bits()), "inverse-f64", "f64 deinterleave is not the inverse");
    let xg: Vec<GF2> = x.iter().map(|&v| if v.count_ones() % 2 == 1 { GF2::one() } else { GF2::zero() }).collect();
    let yg = guarded(|| with_layout(&xg, GF2::one(), lay, |v| il.interleave(&v).to_vec())).map_err(|e| Fail::new("panic", format!("interleave panicked ({}): {e}", layout_name(lay))))?;
    ensure!(yg.len() == n, "length", "interleave changed the length to {}", yg.len());
    for (i, v) in yg.iter().enumerate() {
        let (r, k) = (i / cc, i % cc);
        let src = if c.backward { (cc - 1 - k) * rr + r } else { k * rr + r };
        ensure!(*v == xg[src], "permutation-gf2", "GF2 element {i} misplaced");
    }
    ensure!(il.deinterleave(&yg) == xg, "inverse-gf2", "GF2 deinterleave is not the inverse");
    // an element type that is Clone but not Copy: same placement, and every element constructed is
    // dropped exactly once (live-instance balance returns to its starting value)
    if n <= 256 {
        let before = LIVE.with(|l| l.get());
        {
            let xc: Vec<Counted> = x.iter().map(|&v| Counted::new(v)).collect();
            let yc = guarded(|| il.interleave(&Array1::from_vec(xc.clone())).to_vec()).map_err(|e| Fail::new("panic", format!("interleave panicked on a non-Copy element type: {e}")))?;
            ensure!(yc.len() == n && (0..n).all(|i| yc[i].0 == y[i]), "permutation-noncopy", "non-Copy elements are placed differently from u32 elements (columns {cc}, rows {rr}, backward {})", c.backward);
            let live_mid = LIVE.with(|l| l.get());
            ensure!(live_mid - before == 2 * n as i64, "element-balance", "after interleave {} element instances are alive, {} expected (input + output): elements were duplicated or lost without Clone/Drop", live_mid - before, 2 * n);
            let bc = guarded(|| il.deinterleave(&yc)).map_err(|e| Fail::new("panic", format!("deinterleave panicked on a non-Copy element type: {e}")))?;
            ensure!(bc.len() == n && (0..n).all(|i| bc[i].0 == x[i]), "inverse-noncopy", "deinterleave is not the inverse for a non-Copy element type (columns {cc}, rows {rr}, backward {})", c.backward);
            let live_end = LIVE.with(|l| l.get());
            ensure!(live_end - before == 3 * n as i64, "element-balance", "after deinterleave {} element instances are alive, {} expected (input, interleaved, deinterleaved): elements were duplicated or lost without Clone/Drop", live_end - before, 3 * n);
        }
        let after = LIVE.with(|l| l.get());
        ensure!(after == before, "element-balance", "{} element instances were dropped more or less often than they were created", after - before);
    }
    p.class_if(cc != rr, "non-square");
    p.class_if(cc == 1 || rr == 1, "degenerate");
    p.class_if(c.backward, "backward");
    p.class_if(lay % LAYOUTS != 0, "non-standard-layout");
    if cc >= 2 && rr >= 2 {
        p.nontrivial();
    }
    Ok(())
}

#[derive(Debug, Clone, Serialize, Deserialize)]
pub struct PuCase {
    pub pattern: Vec<bool>,
    pub block: usize,
    pub extra: usize,
    #[serde(default)]
    pub layout: u8,
    /// > 0: the same puncturer object first processes a codeword with this block size
    #[serde(default)]
    pub warm_block: usize,
}

fn pu_strategy(_t: Tier) -> BoxedStrategy<PuCase> {
    (prop_oneof![7 => proptest::collection::vec(any::<bool>(), 1..=8), 1 => proptest::collection::vec(any::<bool>(), 9..=16), 1 => proptest::collection::vec(any::<bool>(), 17..=80), 1 => proptest::collection::vec(proptest::bool::weighted(0.7), 81..=300)], any::<u16>(), prop_oneof![16 => 1usize..=6, 1 => 7usize..=64, 1 => 65usize..=3000], 0usize..=6, 0..LAYOUTS, prop_oneof![3 => Just(0usize), 2 => 1usize..=6])
        .prop_map(|(mut pattern, k, block, extra, layout, warm_block)| {
            // at least one true, by construction
            if !pattern.iter().any(|&b| b) {
                let i = idx(k, pattern.len());
                pattern[i] = true;
            }
            // long patterns with small blocks, so that a case stays cheap
            let block = if pattern.len() > 16 { 1 + (block - 1) % 12 } else { block };
            PuCase { pattern, block, extra, layout, warm_block }
        })
        .boxed()
}

fn check_pu(c: &PuCase, p: &mut Probe) -> Check {
    let pat = &c.pattern;
    let bs = c.block;
    let pu = Puncturer::new(pat);
    let n = pat.len() * bs;
    let t = pat.iter().filter(|&&b| b).count();
    if c.warm_block > 0 && c.warm_block != bs {
        let b0 = c.warm_block;
        let x0: Vec<i64> = (0..(pat.len() * b0) as i64).map(|v| 7 * v - 50).collect();
        let y0 = guarded(|| pu.puncture(&Array1::from_vec(x0.clone()))).map_err(|e| Fail::new("panic", format!("puncture panicked on the first codeword: {e}")))?.map_err(|e| Fail::new("puncture-err", format!("puncture rejected a divisible length: {e}")))?.to_vec();
        let want0: Vec<i64> = (0..pat.len()).filter(|&b| pat[b]).flat_map(|b| x0[b * b0..(b + 1) * b0].to_vec()).collect();
        ensure!(y0 == want0, "puncture", "pattern {pat:?}, block {b0}: kept {y0:?}, expected {want0:?}");
        let d0 = guarded(|| pu.depuncture(&y0)).map_err(|e| Fail::new("panic", format!("depuncture panicked on the first codeword: {e}")))?.map_err(|e| Fail::new("depuncture-err", format!("{e}")))?;
        ensure!(d0.len() == x0.len() && (0..x0.len()).all(|i| d0[i] == if pat[i / b0] { x0[i] } else { 0 }), "depuncture", "pattern {pat:?}, block {b0}: depunctured {d0:?}");
        p.class("object-reused-with-another-length");
    }
    let pu = pu.clone();
    let lay = c.layout;
    p.class_if(lay % LAYOUTS != 0, "non-standard-layout");
    let x: Vec<i64> = (1..=n as i64).map(|v| v * 3 + 1000).collect();
    let y = guarded(|| with_layout(&x, -777, lay, |v| pu.puncture(&v))).map_err(|e| Fail::new("panic", format!("puncture panicked ({}): {e}", layout_name(lay))))?;
    let y = y.map_err(|e| Fail::new("puncture-err", format!("puncture rejected a divisible length: {e}")))?.to_vec();
    let want: Vec<i64> = (0..pat.len()).filter(|&b| pat[b]).flat_map(|b| x[b * bs..(b + 1) * bs].to_vec()).collect();
    ensure!(y == want, "puncture", "pattern {pat:?}, block {bs}, input layout {}: kept {y:?}, expected the true blocks in order {want:?}", layout_name(lay));
    let d = guarded(|| pu.depuncture(&y)).map_err(|e| Fail::new("panic", format!("depuncture panicked: {e}")))?;
    let d = d.map_err(|e| Fail::new("depuncture-err", format!("depuncture rejected a divisible length: {e}")))?;
    ensure!(d.len() == n, "depuncture-length", "depuncture gives {} values, codeword length is {n}", d.len());
    for i in 0..n {
        let w = if pat[i / bs] { x[i] } else { 0 };
        ensure!(d[i] == w, "depuncture", "pattern {pat:?}, block {bs}: depunctured[{i}] = {}, expected {w}", d[i]);
    }
    // LLR type: removed positions are exactly +0.0
    let yf: Vec<f64> = y.iter().map(|&v| -(v as f64) * 0.25).collect();
    let df = pu.depuncture(&yf).map_err(|e| Fail::new("depuncture-err", format!("{e}")))?;
    for i in 0..n {
        if !pat[i / bs] {
            ensure!(df[i].to_bits() == 0.0f64.to_bits(), "neutral", "removed position {i} is {:?}, not the neutral +0.0", df[i]);
        }
    }
    ensure!(pu.rate() == pat.len() as f64 / t as f64, "rate", "rate() = {}, pattern length over kept blocks = {}", pu.rate(), pat.len() as f64 / t as f64);
    // indivisible lengths -> Err, never a panic or a truncated result
    if c.extra > 0 && (n + c.extra) % pat.len() != 0 {
        p.class("indivisible-puncture");
        let xx: Vec<i64> = (0..(n + c.extra) as i64).collect();
        let r = guarded(|| with_layout(&xx, -1, lay, |v| pu.puncture(&v))).map_err(|e| Fail::new("panic", format!("puncture panicked on an indivisible length: {e}")))?;
        ensure!(r.is_err(), "indivisible-accepted", "puncture accepted length {} with a pattern of length {}", n + c.extra, pat.len());
    }
    if c.extra > 0 && (y.len() + c.extra) % t != 0 {
        p.class("indivisible-depuncture");
        let yy = vec![0.5f64; y.len() + c.extra];
        let r = guarded(|| pu.depuncture(&yy)).map_err(|e| Fail::new("panic", format!("depuncture panicked on an indivisible length: {e}")))?;
        ensure!(r.is_err(), "indivisible-accepted", "depuncture accepted {} values with {t} kept blocks", y.len() + c.extra);
    }
    // Clone-but-not-Copy elements: same blocks, every instance dropped exactly once
    {
        let before = LIVE.with(|l| l.get());
        {
            let xc: Vec<Counted> = x.iter().map(|&v| Counted::new(v as u32)).collect();
            let yc = guarded(|| pu.puncture(&Array1::from_vec(xc.clone()))).map_err(|e| Fail::new("panic", format!("puncture panicked on a non-Copy element type: {e}")))?.map_err(|e| Fail::new("puncture-err", format!("{e}")))?;
            ensure!(yc.len() == want.len() && yc.iter().zip(&want).all(|(a, b)| a.0 == *b as u32), "puncture-noncopy", "non-Copy elements are punctured differently from i64 elements (pattern {pat:?}, block {bs})");
            let live = LIVE.with(|l| l.get());
            ensure!(live - before == (n + want.len()) as i64, "element-balance", "after puncture {} element instances are alive, {} expected", live - before, n + want.len());
        }
        let after = LIVE.with(|l| l.get());
        ensure!(after == before, "element-balance", "{} element instances were dropped more or less often than they were created by puncture", after - before);
    }
    // every length below the pattern length: 0 is divisible (empty result), all others are not
    for l in 0..pat.len() {
        let xx: Vec<i64> = (0..l as i64).map(|v| v + 1).collect();
        let r = guarded(|| with_layout(&xx, -1, lay, |v| pu.puncture(&v))).map_err(|e| Fail::new("panic", format!("puncture panicked on a codeword of length {l} (pattern length {}): {e}", pat.len())))?;
        if l == 0 {
            ensure!(r.as_ref().is_ok_and(|y| y.is_empty()), "empty-codeword", "puncture of the empty codeword gives {r:?}");
        } else {
            ensure!(r.is_err(), "indivisible-accepted", "puncture accepted a codeword of length {l}, shorter than the pattern ({} blocks): {r:?}", pat.len());
        }
    }
    for l in 0..t {
        let yy = vec![0.25f64; l];
        let r = guarded(|| pu.depuncture(&yy)).map_err(|e| Fail::new("panic", format!("depuncture panicked on {l} values ({t} kept blocks): {e}")))?;
        if l == 0 {
            ensure!(r.as_ref().is_ok_and(|y| y.is_empty()), "empty-codeword", "depuncture of no values gives {r:?}");
        } else {
            ensure!(r.is_err(), "indivisible-accepted", "depuncture accepted {l} values with {t} kept blocks: {r:?}");
        }
    }
    p.class_if(pat.len() >= 2, "lengths-below-pattern-length");
    p.class_if(t < pat.len(), "something-removed");
    p.class_if(pat.len() > 20, "pattern-of-more-than-20-blocks");
    if t < pat.len() && pat.len() >= 2 {
        p.nontrivial();
    }
    Ok(())
}

pub fn property() -> Property {
    Property {
        id: "C15",
        subs: vec![
            Box::new(EnumSub {
                name: "interleaver-shapes",
                rule: "exhaustive over all (columns, rows) in 1..=12 squared (thorough 1..=40) x both reading directions, each shape once through an owned standard-layout array on a fresh object and once through a non-standard layout (reversed view, stride 2, stride -2, offset sub-range, owned array with negative stride) on an object that has already processed a block of another length; the second half of the checks runs on a clone taken after first use: output[r*C+c] = input[c*R+r] (or input[(C-1-c)*R+r] backwards) on distinct u32 labels; deinterleave o interleave = id and interleave o deinterleave = id; the same placement bit-exactly for f64 (incl. -0.0) and GF2 elements, and for a Clone-but-not-Copy element type whose constructions and drops are counted (balance of live instances after interleave and deinterleave); non-trivial = C, R >= 2",
                cases: il_all,
                check: check_il,
                exhaustive: true,
            }),
            Box::new(Sub {
                name: "interleaver-random",
                rule: "random shapes up to 64 x 64, one dimension in nineteen 65..=1100 (degenerate C = 1 / R = 1 weighted up; one case in 250 a block of 44 000 - 175 000 elements, 2/3/5 columns by 22 000 - 35 000 rows or transposed), both directions, random label salt, all six input layouts, 40 % of the cases on an object that first processed another block length, a quarter after calls with a length that is not a multiple of the column count (documented panic, caught and ignored); same oracle",
                cases: |t| t.pick(50_000, 1_000_000),
                strategy: il_strategy,
                check: check_il,
                health: &[],
            }),
            Box::new(Sub {
                name: "puncturer",
                rule: "boolean patterns of length 1..=8 (one in eight: 9..=16) with at least one true (by construction), block size 1..=6 (one in nine: 7..=64 or 65..=3000), all six input layouts (ArrayBase views: reversed, strided, offset), 40 % of the cases on an object that first processed a codeword of another block size: puncture keeps exactly the true blocks in order; depuncture puts them back with neutral values (i64 0, f64 exactly +0.0) in the removed blocks; rate = pattern length / kept blocks; lengths not divisible by the pattern length (puncture) or by the number of kept blocks (depuncture) give Err, never a panic or a shortened vector, including every length below the pattern length / the number of kept blocks (length 0 gives an empty result); non-trivial = something removed",
                cases: |t| t.pick(1_000_000, 30_000_000),
                strategy: pu_strategy,
                check: check_pu,
                health: &[("indivisible-puncture", 0.20), ("something-removed", 0.50)],
            }),
        ],
        assumptions: vec!["the interleaver API has no error channel (it asserts divisibility); the property's error clause is read as applying to the puncturer, whose API returns Result".into()],
    }
}
