//! C11 — girth and BFS distances are exact graph quantities.

use crate::common::*;
use crate::engine::*;
use crate::ensure;
use ldpc_toolbox::sparse::Node;
use proptest::prelude::*;
use serde::{Deserialize, Serialize};
use std::collections::BTreeSet;

#[derive(Debug, Clone, Serialize, Deserialize)]
pub struct Case {
    pub h: Mat,
    pub class: String,
}

/// grows pendant trees: every remaining node attaches to an already placed node
/// of the other kind (or starts a new component). Node ids: rows 0..r, columns r..r+c.
fn grow(r: usize, c: usize, placed: &mut Vec<usize>, order: &[usize], choices: &[(u16, bool)], edges: &mut BTreeSet<(usize, usize)>) {
    for (k, &node) in order.iter().enumerate() {
        if placed.contains(&node) {
            continue;
        }
        let (pick, newcomp) = choices[k % choices.len().max(1)];
        let is_row = node < r;
        let cands: Vec<usize> = placed.iter().copied().filter(|&x| (x < r) != is_row).collect();
        if !newcomp && !cands.is_empty() {
            let other = cands[idx(pick, cands.len())];
            let (row, col) = if is_row { (node, other - r) } else { (other, node - r) };
            edges.insert((row, col));
        }
        placed.push(node);
    }
    let _ = c;
}

pub fn strategy(maxdim: usize) -> BoxedStrategy<Case> {
    (prop_oneof![1 => 1usize..=maxdim, 3 => 4usize.min(maxdim)..=maxdim], prop_oneof![1 => 1usize..=maxdim, 3 => 4usize.min(maxdim)..=maxdim], 0..12u8)
        .prop_flat_map(move |(r, c, class)| {
            let n = r + c;
            (
                Just((r, c, class)),
                Just((0..n).collect::<Vec<usize>>()).prop_shuffle(),
                proptest::collection::vec((any::<u16>(), prop::bool::weighted(0.12)), n.max(1)),
                proptest::collection::vec((any::<u16>(), any::<u16>()), 0..4),
                (any::<u16>(), any::<u16>(), any::<u16>(), 0.2f64..0.8),
                (Just((0..r).collect::<Vec<usize>>()).prop_shuffle(), Just((0..c).collect::<Vec<usize>>()).prop_shuffle()),
            )
        })
        .prop_map(|((r, c, class), order, choices, extra, (a, b, d, dens), (rp, cp))| {
            let mut edges: BTreeSet<(usize, usize)> = BTreeSet::new();
            let mut placed: Vec<usize> = Vec::new();
            let m = r.min(c);
            let cycle = |start: usize, len: usize, edges: &mut BTreeSet<(usize, usize)>, placed: &mut Vec<usize>| {
                for j in 0..len {
                    edges.insert((start + j, start + j));
                    edges.insert((start + j, start + (j + 1) % len));
                    placed.push(start + j);
                    placed.push(r + start + j);
                }
            };
            let name = match class {
                0 => {
                    grow(r, c, &mut placed, &order, &choices, &mut edges);
                    "forest"
                }
                1 | 2 if m >= 2 => {
                    let len = 2 + idx(a, (m - 1).min(4));
                    cycle(0, len, &mut edges, &mut placed);
                    grow(r, c, &mut placed, &order, &choices, &mut edges);
                    "cycle-with-pendants"
                }
                3 | 4 | 5 if m >= 4 => {
                    // two cycles of different length, joined through the grown trees or a direct edge
                    let l1 = 2 + idx(a, (m - 3).min(3));
                    let l2 = (2 + idx(b, (m - l1 - 1).min(4))).min(m - l1);
                    cycle(0, l1, &mut edges, &mut placed);
                    if l2 >= 2 {
                        cycle(l1, l2, &mut edges, &mut placed);
                        if d & 1 == 1 {
                            edges.insert((0, l1));
                        }
                    }
                    grow(r, c, &mut placed, &order, &choices, &mut edges);
                    "two-cycles"
                }
                6 | 7 if m >= 3 => {
                    // theta graph: a cycle plus a chord path through fresh nodes
                    let len = 3.min(m) + idx(a, (m - 2).min(3));
                    let len = len.min(m);
                    cycle(0, len, &mut edges, &mut placed);
                    if len < m {
                        // path row 0 -> col len -> row len -> col (target) joins two cycle nodes
                        edges.insert((0, len));
                        edges.insert((len, len));
                        edges.insert((len, idx(b, len)));
                        placed.push(len);
                        placed.push(r + len);
                    } else {
                        edges.insert((0, idx(b, len)));
                    }
                    grow(r, c, &mut placed, &order, &choices, &mut edges);
                    "theta"
                }
                8 => {
                    for i in 0..r {
                        for j in 0..c {
                            let hsh = splitmix(((i * 131 + j) as u64) ^ ((a as u64) << 20) ^ ((b as u64) << 40));
                            if (hsh % 1000) as f64 / 1000.0 < dens {
                                edges.insert((i, j));
                            }
                        }
                    }
                    "dense"
                }
                9 => {
                    let (x, y) = (1 + idx(a, r), 1 + idx(b, c));
                    for i in 0..x {
                        for j in 0..y {
                            edges.insert((i, j));
                        }
                    }
                    grow(r, c, &mut (0..x).chain(r..r + y).collect(), &order, &choices, &mut edges);
                    "complete-bipartite"
                }
                _ => {
                    grow(r, c, &mut placed, &order, &choices, &mut edges);
                    "forest-plus-extra-edges"
                }
            };
            if !(matches!(name, "forest")) {
                // a few random extra edges (skipped for the pure forest class)
                let k = if name == "forest-plus-extra-edges" { extra.len().max(1) } else { extra.len().saturating_sub(2) };
                for (x, y) in extra.iter().cycle().take(k) {
                    edges.insert((idx(*x, r), idx(*y, c)));
                }
            }
            // relabel rows and columns
            let ones: Vec<(usize, usize)> = edges.into_iter().map(|(i, j)| (rp[i], cp[j])).collect();
            Case { h: Mat { rows: r, cols: c, ones }, class: name.to_string() }
        })
        .prop_flat_map(|c| (shuffled(Just(c.h)), Just(c.class)))
        .prop_map(|(h, class)| Case { h, class })
        .boxed()
}

const BOUNDS: [usize; 24] = [0, 1, 2, 3, 4, 5, 6, 7, 8, 9, 10, 11, 12, 13, 14, 15, 16, 17, 18, 19, 20, 21, 22, usize::MAX];

fn bounded(g: Option<usize>, b: usize) -> Option<usize> {
    g.filter(|&x| x <= b)
}

pub fn check(case: &Case, p: &mut Probe) -> Check {
    let m = &case.h;
    // the matrix reaches the queries along one of six public construction paths
    let path = ((m.ones.len() + 5 * m.rows + m.cols) % 6) as u8;
    let h = m.to_sparse_by(path);
    p.class_if(path != 0, "built-by-bulk-insertion-or-parsing");
    let g = Graph::from_mat(m);
    let (r, c) = (m.rows, m.cols);
    let girth = g.girth();
    let locals: Vec<Option<usize>> = (0..g.n()).map(|v| g.local_girth(v)).collect();
    // global girth
    let got = guarded(|| h.girth()).map_err(|e| Fail::new("panic", format!("girth() panicked: {e}")))?;
    ensure!(got == girth, "girth", "girth() = {got:?}, the shortest cycle has length {girth:?} (matrix built by {})", Mat::construction_path_name(path));
    for &b in &BOUNDS {
        let got = guarded(|| h.girth_with_max(b)).map_err(|e| Fail::new("panic", format!("girth_with_max({b}) panicked: {e}")))?;
        ensure!(got == bounded(girth, b), "girth-bounded", "girth_with_max({b}) = {got:?}, girth is {girth:?}");
    }
    let mut off_shortest = false;
    let mut on_no_cycle = false;
    for v in 0..g.n() {
        let node = if v < r { Node::Row(v) } else { Node::Col(v - r) };
        // BFS distances
        let res = guarded(|| h.bfs(node)).map_err(|e| Fail::new("panic", format!("bfs({node:?}) panicked: {e}")))?;
        let d = g.dist(v, None);
        ensure!(res.row_nodes_distance.len() == r && res.col_nodes_distance.len() == c, "bfs-shape", "bfs({node:?}) result has wrong lengths");
        for i in 0..r {
            ensure!(res.row_nodes_distance[i] == d[i], "bfs", "bfs({node:?}): distance to row {i} reported {:?}, shortest path is {:?}", res.row_nodes_distance[i], d[i]);
        }
        for j in 0..c {
            ensure!(res.col_nodes_distance[j] == d[r + j], "bfs", "bfs({node:?}): distance to column {j} reported {:?}, shortest path is {:?}", res.col_nodes_distance[j], d[r + j]);
        }
        // local girth
        let want = locals[v];
        let got = guarded(|| h.girth_at_node(node)).map_err(|e| Fail::new("panic", format!("girth_at_node({node:?}) panicked: {e}")))?;
        if got != want {
            let key = if want.is_none() { "local-girth-no-cycle" } else { "local-girth" };
            return Err(Fail::new(key, format!("girth_at_node({node:?}) = {got:?}, the shortest cycle through that node has length {want:?}")));
        }
        for &b in &BOUNDS {
            let got = guarded(|| h.girth_at_node_with_max(node, b)).map_err(|e| Fail::new("panic", format!("girth_at_node_with_max({node:?}, {b}) panicked: {e}")))?;
            ensure!(got == bounded(want, b), "local-girth-bounded", "girth_at_node_with_max({node:?}, {b}) = {got:?}, local girth is {want:?}");
            p.inner += 1;
        }
        if girth.is_some() {
            match want {
                None => on_no_cycle = true,
                Some(x) if Some(x) != girth => off_shortest = true,
                _ => {}
            }
        }
    }
    // the same object after an edit: every quantity above was queried on `h`; a copy of it is now
    // edited (one of clear_row, clear_col, set_row to empty, remove, toggle, chosen from the case) and
    // queried again against the own oracles of the edited matrix
    if !m.ones.is_empty() {
        let mut h2 = h.clone();
        let pick = m.ones[(m.ones.len() * 7 + r) % m.ones.len()];
        let kind = (m.ones.len() + c) % 5;
        let mut m2 = m.clone();
        let what = match kind {
            0 => {
                h2.clear_row(pick.0);
                m2.ones.retain(|e| e.0 != pick.0);
                format!("clear_row({})", pick.0)
            }
            1 => {
                h2.clear_col(pick.1);
                m2.ones.retain(|e| e.1 != pick.1);
                format!("clear_col({})", pick.1)
            }
            2 => {
                h2.set_row(pick.0, std::iter::empty::<&usize>());
                m2.ones.retain(|e| e.0 != pick.0);
                format!("set_row({}, [])", pick.0)
            }
            3 => {
                h2.remove(pick.0, pick.1);
                m2.ones.retain(|e| *e != pick);
                format!("remove({}, {})", pick.0, pick.1)
            }
            _ => {
                // toggle a position derived from the case: removes it if present, adds an edge otherwise
                let pos = ((pick.0 + 1) % r, (pick.1 + 1) % c);
                h2.toggle(pos.0, pos.1);
                if m2.ones.contains(&pos) {
                    m2.ones.retain(|e| *e != pos);
                } else {
                    m2.ones.push(pos);
                }
                format!("toggle({}, {})", pos.0, pos.1)
            }
        };
        let g2 = Graph::from_mat(&m2);
        let girth2 = g2.girth();
        let got = guarded(|| h2.girth()).map_err(|e| Fail::new("panic", format!("girth() after {what} panicked: {e}")))?;
        ensure!(got == girth2, "girth-after-edit", "after {what} on an object whose girth had been queried ({girth:?}): girth() = {got:?}, the shortest cycle of the edited matrix has length {girth2:?}");
        for &b in &[4usize, 6, 8, usize::MAX] {
            let got = guarded(|| h2.girth_with_max(b)).map_err(|e| Fail::new("panic", format!("girth_with_max({b}) after {what} panicked: {e}")))?;
            ensure!(got == bounded(girth2, b), "girth-after-edit", "after {what}: girth_with_max({b}) = {got:?}, girth of the edited matrix is {girth2:?}");
        }
        let v = (pick.0 + pick.1) % g2.n();
        let node = if v < r { Node::Row(v) } else { Node::Col(v - r) };
        let got = guarded(|| h2.girth_at_node(node)).map_err(|e| Fail::new("panic", format!("girth_at_node after {what} panicked: {e}")))?;
        ensure!(got == g2.local_girth(v), "girth-after-edit", "after {what}: girth_at_node({node:?}) = {got:?}, the edited matrix has {:?}", g2.local_girth(v));
        let res = guarded(|| h2.bfs(node)).map_err(|e| Fail::new("panic", format!("bfs after {what} panicked: {e}")))?;
        let d = g2.dist(v, None);
        ensure!((0..r).all(|i| res.row_nodes_distance[i] == d[i]) && (0..c).all(|j| res.col_nodes_distance[j] == d[r + j]), "bfs-after-edit", "after {what}: bfs({node:?}) distances differ from the shortest paths of the edited matrix");
        p.class_if(girth2 != girth, "edit-changed-the-girth");
        p.inner += 7;
    }
    p.class_if(girth.is_none(), "forest");
    p.class_if(girth.is_some(), "has-cycle");
    p.class_if(off_shortest, "root-off-every-shortest-cycle");
    p.class_if(on_no_cycle, "root-on-no-cycle-in-cyclic-graph");
    p.class_if(girth.is_some_and(|x| x >= 8), "girth>=8");
    let comps = {
        let mut seen = vec![false; g.n()];
        let mut k = 0;
        for v in 0..g.n() {
            if !seen[v] {
                k += 1;
                for (u, d) in g.dist(v, None).iter().enumerate() {
                    if d.is_some() {
                        seen[u] = true;
                    }
                }
            }
        }
        k
    };
    p.class_if(comps >= 2, "disconnected");
    if off_shortest || on_no_cycle {
        p.nontrivial();
    }
    Ok(())
}

/// matrices with one dimension beyond 2^16 and a handful of edges whose indices in that dimension
/// agree modulo 65536 (5 and 65541, 0 and 65536, ...): only the nodes that carry an edge are used as roots
fn wide_strategy(_t: Tier) -> BoxedStrategy<Case> {
    const ALIASED: [usize; 10] = [5, 65_541, 6, 65_542, 0, 65_536, 63, 65_599, 65_535, 100];
    (2usize..=6, proptest::collection::vec((any::<u16>(), any::<u16>()), 4..=12), any::<bool>())
        .prop_map(|(small, edges, tall)| {
            let big = 65_600usize;
            let mut h = if tall { Mat::new(big, small) } else { Mat::new(small, big) };
            let mut seen = BTreeSet::new();
            for (a, b) in edges {
                let e = if tall { (ALIASED[idx(b, ALIASED.len())], idx(a, small)) } else { (idx(a, small), ALIASED[idx(b, ALIASED.len())]) };
                if seen.insert(e) {
                    h.ones.push(e);
                }
            }
            Case { h, class: "wide-index".into() }
        })
        .boxed()
}

fn check_wide(case: &Case, p: &mut Probe) -> Check {
    let m = &case.h;
    let h = m.to_sparse();
    let g = Graph::from_mat(m);
    let (r, c) = (m.rows, m.cols);
    let girth = {
        // shortest cycle through any node that carries an edge (all other nodes are isolated)
        let mut best: Option<usize> = None;
        for &(i, j) in &m.ones {
            for v in [i, r + j] {
                if let Some(x) = g.local_girth(v) {
                    best = Some(best.map_or(x, |b| b.min(x)));
                }
            }
        }
        best
    };
    // the global girth searches from every column and allocates per root: only asked for in the tall
    // layout (few columns), where it costs milliseconds instead of seconds
    if c <= 8 {
        let got = guarded(|| h.girth()).map_err(|e| Fail::new("panic", format!("girth() panicked: {e}")))?;
        ensure!(got == girth, "girth", "girth() = {got:?}, the shortest cycle has length {girth:?} ({r} x {c}, ones {:?})", m.ones);
        for &b in &[4usize, 6, 8, 12] {
            let got = guarded(|| h.girth_with_max(b)).map_err(|e| Fail::new("panic", format!("girth_with_max({b}) panicked: {e}")))?;
            ensure!(got == bounded(girth, b), "girth-bounded", "girth_with_max({b}) = {got:?}, girth is {girth:?} ({r} x {c}, ones {:?})", m.ones);
        }
    }
    let mut roots: Vec<usize> = m.ones.iter().flat_map(|&(i, j)| [i, r + j]).collect();
    roots.sort_unstable();
    roots.dedup();
    for &v in &roots {
        let node = if v < r { Node::Row(v) } else { Node::Col(v - r) };
        let want = g.local_girth(v);
        let got = guarded(|| h.girth_at_node(node)).map_err(|e| Fail::new("panic", format!("girth_at_node({node:?}) panicked: {e}")))?;
        ensure!(got == want, "local-girth", "girth_at_node({node:?}) = {got:?}, the shortest cycle through that node has length {want:?} ({r} x {c}, ones {:?})", m.ones);
        for &b in &[3usize, 4, 5, 6, 7, 8] {
            let got = guarded(|| h.girth_at_node_with_max(node, b)).map_err(|e| Fail::new("panic", format!("girth_at_node_with_max panicked: {e}")))?;
            ensure!(got == bounded(want, b), "local-girth-bounded", "girth_at_node_with_max({node:?}, {b}) = {got:?}, local girth is {want:?}");
        }
        let res = guarded(|| h.bfs(node)).map_err(|e| Fail::new("panic", format!("bfs({node:?}) panicked: {e}")))?;
        let d = g.dist(v, None);
        ensure!(res.row_nodes_distance.len() == r && res.col_nodes_distance.len() == c, "bfs-shape", "bfs({node:?}) result has wrong lengths");
        ensure!((0..r).all(|i| res.row_nodes_distance[i] == d[i]) && (0..c).all(|j| res.col_nodes_distance[j] == d[r + j]), "bfs", "bfs({node:?}): distances differ from the shortest paths ({r} x {c}, ones {:?})", m.ones);
        p.inner += 8;
    }
    p.class_if(girth.is_some(), "has-cycle");
    if girth.is_some() {
        p.nontrivial();
    }
    Ok(())
}

/// matrices with 65..=400 columns (or rows) and few rows: mostly weight-0/1 columns (forest), the
/// columns of weight 2 or 3 either spread over the whole matrix or confined to a window of 24, so
/// that long runs of consecutive columns lie on no cycle while others do
fn medium_strategy(_t: Tier) -> BoxedStrategy<Case> {
    (3usize..=40, 65usize..=400, any::<bool>(), 0..3u8, any::<bool>(), any::<u16>(), any::<u64>())
        .prop_map(|(small, big, tall, density, window, wstart, seed)| {
            let mut s = seed;
            let mut next = |m: usize| -> usize {
                s = splitmix(s);
                ((s >> 16) as usize) % m.max(1)
            };
            let w0 = idx(wstart, big);
            let mut ones = BTreeSet::new();
            for j in 0..big {
                let heavy_ok = !window || (j >= w0 && j < w0 + 24);
                let roll = next(100);
                let heavy_share = if window { [30usize, 60, 90][density as usize] } else { [3usize, 12, 35][density as usize] };
                let w = if roll < 10 {
                    0
                } else if heavy_ok && roll < 10 + heavy_share {
                    2 + next(2)
                } else {
                    1
                };
                for _ in 0..w {
                    // heavy columns inside a window share few rows, so that they close cycles
                    let i = if window && w >= 2 { next(small.min(6)) } else { next(small) };
                    ones.insert(if tall { (j, i) } else { (i, j) });
                }
            }
            let mut h = if tall { Mat::new(big, small) } else { Mat::new(small, big) };
            h.ones = ones.into_iter().collect();
            Case { h, class: "medium".into() }
        })
        .prop_flat_map(|c| (shuffled(Just(c.h.clone())), Just(c)))
        .prop_map(|(h, mut c)| {
            c.h = h;
            c
        })
        .boxed()
}

fn check_medium(case: &Case, p: &mut Probe) -> Check {
    let m = &case.h;
    let h = m.to_sparse();
    let g = Graph::from_mat(m);
    let (r, c) = (m.rows, m.cols);
    let locals: Vec<Option<usize>> = (0..g.n()).map(|v| g.local_girth(v)).collect();
    let girth = locals.iter().flatten().min().copied();
    let got = guarded(|| h.girth()).map_err(|e| Fail::new("panic", format!("girth() panicked ({r} x {c}): {e}")))?;
    ensure!(got == girth, "girth", "girth() = {got:?}, the shortest cycle has length {girth:?} ({r} x {c}, ones {:?})", m.ones);
    for &b in &[0usize, 3, 4, 5, 6, 7, 8, 10, 12, 16, 1 << 40, usize::MAX] {
        let got = guarded(|| h.girth_with_max(b)).map_err(|e| Fail::new("panic", format!("girth_with_max({b}) panicked ({r} x {c}): {e}")))?;
        ensure!(got == bounded(girth, b), "girth-bounded", "girth_with_max({b}) = {got:?}, girth is {girth:?} ({r} x {c}, ones {:?})", m.ones);
        p.inner += 1;
    }
    // columns in runs of 64 consecutive indices that lie on no cycle (or on none as short as the girth)
    let quiet_block = (0..c.div_ceil(64)).any(|b| (b * 64..((b + 1) * 64).min(c)).all(|j| locals[r + j].is_none()));
    p.class_if(girth.is_some() && quiet_block, "a-64-column-block-on-no-cycle");
    p.class_if(girth.is_some(), "has-cycle");
    p.class_if(girth.is_none(), "forest");
    // local quantities from sixteen roots spread over the node set
    let n = g.n();
    for t in 0..16usize {
        let v = (t * n / 16 + (m.ones.len() % 7)) % n;
        let node = if v < r { Node::Row(v) } else { Node::Col(v - r) };
        let want = locals[v];
        let got = guarded(|| h.girth_at_node(node)).map_err(|e| Fail::new("panic", format!("girth_at_node({node:?}) panicked: {e}")))?;
        ensure!(got == want, "local-girth", "girth_at_node({node:?}) = {got:?}, the shortest cycle through that node has length {want:?} ({r} x {c}, ones {:?})", m.ones);
        for &b in &[0usize, 1, 2, 4, 6, 8, 9, 14] {
            let got = guarded(|| h.girth_at_node_with_max(node, b)).map_err(|e| Fail::new("panic", format!("girth_at_node_with_max({node:?}, {b}) panicked: {e}")))?;
            ensure!(got == bounded(want, b), "local-girth-bounded", "girth_at_node_with_max({node:?}, {b}) = {got:?}, local girth is {want:?} ({r} x {c}, ones {:?})", m.ones);
        }
        let res = guarded(|| h.bfs(node)).map_err(|e| Fail::new("panic", format!("bfs({node:?}) panicked: {e}")))?;
        let d = g.dist(v, None);
        ensure!(res.row_nodes_distance.len() == r && res.col_nodes_distance.len() == c, "bfs-shape", "bfs({node:?}) result has wrong lengths");
        ensure!((0..r).all(|i| res.row_nodes_distance[i] == d[i]) && (0..c).all(|j| res.col_nodes_distance[j] == d[r + j]), "bfs", "bfs({node:?}): distances differ from the shortest paths ({r} x {c}, ones {:?})", m.ones);
        p.inner += 10;
    }
    if girth.is_some() && quiet_block {
        p.nontrivial();
    }
    Ok(())
}

/// incidence matrix of the projective plane over GF(q), q prime: q^2 + q + 1 points and lines,
/// q + 1 ones per row and column, girth 6 with the fewest nodes possible (a Moore graph)
fn projective_plane(q: usize) -> Mat {
    let mut pts: Vec<[usize; 3]> = Vec::new();
    for x in 0..q {
        for y in 0..q {
            pts.push([x, y, 1]);
        }
    }
    for x in 0..q {
        pts.push([x, 1, 0]);
    }
    pts.push([1, 0, 0]);
    let n = pts.len();
    let mut m = Mat::new(n, n);
    for (i, l) in pts.iter().enumerate() {
        for (j, p) in pts.iter().enumerate() {
            if (l[0] * p[0] + l[1] * p[1] + l[2] * p[2]) % q == 0 {
                m.ones.push((i, j));
            }
        }
    }
    m
}

/// the generalised quadrangle GQ(2,2): rows = the 15 perfect matchings of K6, columns = its 15
/// edges; 3 ones per row and column, girth 8 with the fewest nodes possible
fn gq22() -> Mat {
    let mut edges: Vec<(usize, usize)> = Vec::new();
    for a in 0..6 {
        for b in a + 1..6 {
            edges.push((a, b));
        }
    }
    let mut matchings: Vec<[(usize, usize); 3]> = Vec::new();
    for b in 1..6 {
        let rest: Vec<usize> = (1..6).filter(|&x| x != b).collect();
        for t in 1..4 {
            let others: Vec<usize> = (1..4).filter(|&x| x != t).collect();
            matchings.push([(0, b), (rest[0], rest[t]), (rest[others[0]], rest[others[1]])]);
        }
    }
    let mut m = Mat::new(15, 15);
    for (i, mt) in matchings.iter().enumerate() {
        for e in mt {
            let e = (e.0.min(e.1), e.0.max(e.1));
            m.ones.push((i, edges.iter().position(|x| *x == e).unwrap()));
        }
    }
    m
}

fn regression(_t: Tier) -> Vec<Case> {
    // D6: a 4-cycle with a pendant path
    let mut h = Mat::new(4, 4);
    h.ones = vec![(0, 0), (0, 1), (1, 0), (1, 1), (1, 2), (2, 2), (2, 3), (3, 3)];
    let mut v = vec![Case { h, class: "pendant-path".into() }, Case { h: Mat::new(2, 3), class: "empty".into() }];
    // a dimension of zero: no edges, no cycles; every query still answers
    for (a, b) in [(0usize, 0usize), (3, 0), (0, 3), (1, 0), (0, 1)] {
        v.push(Case { h: Mat::new(a, b), class: format!("empty-dimension-{a}x{b}") });
    }
    // extremal graphs: the most edges a given girth allows (any bound derived from counting nodes or
    // edges is attained exactly), and complete bipartite graphs (girth 4 at any density)
    for q in [2usize, 3, 5] {
        v.push(Case { h: projective_plane(q), class: format!("projective-plane-{q}") });
    }
    v.push(Case { h: gq22(), class: "generalised-quadrangle-2-2".into() });
    for (a, b) in [(2usize, 2usize), (3, 3), (3, 7), (6, 6)] {
        let mut k = Mat::new(a, b);
        for i in 0..a {
            for j in 0..b {
                k.ones.push((i, j));
            }
        }
        v.push(Case { h: k, class: format!("complete-bipartite-{a}-{b}") });
    }
    // a single long cycle: 2k nodes, girth 2k
    for k in [2usize, 3, 8, 11] {
        let mut c = Mat::new(k, k);
        for i in 0..k {
            c.ones.push((i, i));
            c.ones.push((i, (i + 1) % k));
        }
        v.push(Case { h: c, class: format!("cycle-{}", 2 * k) });
    }
    v
}

/// what a thread has asked before: one fresh thread puts 150 000 (thorough: 1 500 000) queries, in a
/// pseudo-random order, to a pool of graphs of different sizes (forests next to cyclic graphs), and
/// every answer is compared with the own oracle. A search that keeps per-thread scratch space with
/// visit stamps or generation counters has to stay right when those counters come round.
fn many_queries_cases(t: Tier) -> Vec<(u64, u64)> {
    let total = t.pick(150_000u64, 1_500_000);
    vec![(1, total), (2, total)]
}

fn check_many_queries(case: &(u64, u64), p: &mut Probe) -> Check {
    let (seed, total) = (&case.0, case.1);
    let mut pool: Vec<Mat> = regression(Tier::Quick).into_iter().map(|c| c.h).filter(|m| m.rows > 0 && m.cols > 0).collect();
    // forests: a path, three stars, isolated edges beside a 6-cycle, a large star forest
    let mut path = Mat::new(6, 7);
    for i in 0..6 {
        path.ones.push((i, i));
        path.ones.push((i, i + 1));
    }
    pool.push(path);
    let mut stars = Mat::new(3, 12);
    for j in 0..12 {
        stars.ones.push((j % 3, j));
    }
    pool.push(stars);
    let mut mixed = Mat::new(9, 9);
    for i in 0..3 {
        mixed.ones.push((i, i));
        mixed.ones.push((i, (i + 1) % 3));
    }
    for i in 3..9 {
        mixed.ones.push((i, i));
    }
    pool.push(mixed);
    let mut wide = Mat::new(40, 40);
    for j in 0..40 {
        wide.ones.push((j / 8, j));
    }
    pool.push(wide);
    let seed = *seed;
    let handle = std::thread::Builder::new().name("c11-many-queries".into()).spawn(move || -> Result<(u64, u64), String> {
        let built: Vec<(ldpc_toolbox::sparse::SparseMatrix, Vec<Option<usize>>, Option<usize>, usize)> = pool.iter().map(|m| {
            let g = Graph::from_mat(m);
            (m.to_sparse(), (0..g.n()).map(|v| g.local_girth(v)).collect(), g.girth(), m.rows)
        }).collect();
        let mut sd = splitmix(seed ^ 0xc11);
        let mut on_forest = 0u64;
        // scripted part: the number of local searches this thread has made is known exactly
        let mut count = 0u64;
        let ask = |h: &ldpc_toolbox::sparse::SparseMatrix, node: Node, bound: Option<usize>, want: Option<usize>, count: &mut u64| -> Result<(), String> {
            *count += 1;
            let got = std::panic::catch_unwind(std::panic::AssertUnwindSafe(|| match bound {
                Some(b) => h.girth_at_node_with_max(node, b),
                None => h.girth_at_node(node),
            }));
            let want = match bound {
                Some(b) => bounded(want, b),
                None => want,
            };
            match got {
                Err(_) => Err(format!("local girth search number {count} of this thread panicked ({node:?}, bound {bound:?}, {} x {} matrix)", h.num_rows(), h.num_cols())),
                Ok(g) if g != want => Err(format!("local girth search number {count} of this thread ({node:?}, bound {bound:?}, {} x {} matrix with {:?} ones) returned {g:?}, the own search gives {want:?}", h.num_rows(), h.num_cols(), (0..h.num_rows()).map(|i| h.iter_row(i).count()).sum::<usize>())),
                Ok(_) => Ok(()),
            }
        };
        let mut tiny = Mat::new(3, 3);
        tiny.ones.push((0, 0));
        let tiny = tiny.to_sparse();
        // a path on rows / columns lo..lo+20 of a 300 x 300 matrix: indices no other query touches
        let fresh = |lo: usize| {
            let mut m = Mat::new(300, 300);
            for i in 0..19 {
                m.ones.push((lo + i, lo + i));
                m.ones.push((lo + i, lo + i + 1));
            }
            m.to_sparse()
        };
        if seed == 1 {
            // the same list of up to 200 queries, asked again exactly 2^8, 2^16 and 2^16 + 2^8 searches later,
            // with nothing but searches on a single-edge matrix in between
            let mut list: Vec<(usize, usize)> = Vec::new();
            for (gi, b) in built.iter().enumerate() {
                let n = b.1.len();
                for t in 0..n.min(9) {
                    list.push((gi, t * n / n.min(9)));
                }
            }
            list.truncate(200);
            for start in [0u64, 256, 65_536, 65_536 + 256, 131_072] {
                while count < start {
                    ask(&tiny, Node::Col(0), None, None, &mut count)?;
                }
                for &(gi, v) in &list {
                    let (h, locals, _, r) = &built[gi];
                    let node = if v < *r { Node::Row(v) } else { Node::Col(v - r) };
                    ask(h, node, if v % 3 == 0 { Some(8) } else { None }, locals[v], &mut count)?;
                }
            }
        } else {
            // matrices whose lines no earlier search has touched, asked about right where a counter of 8
            // or 16 bits comes round
            for (at, lo) in [(255u64, 40usize), (256, 65), (257, 90), (65_535, 115), (65_536, 140), (65_537, 165), (131_072, 190)] {
                while count + 1 < at {
                    ask(&tiny, Node::Col(0), None, None, &mut count)?;
                }
                let h = fresh(lo);
                ask(&h, Node::Row(lo + 9), None, None, &mut count)?;
                let _ = at;
            }
        }
        for q in 0..total {
            sd = splitmix(sd);
            let (h, locals, girth, r) = &built[(sd % built.len() as u64) as usize];
            let v = ((sd >> 16) % locals.len() as u64) as usize;
            let node = if v < *r { Node::Row(v) } else { Node::Col(v - r) };
            let want = locals[v];
            let kind = (sd >> 40) % 16;
            let res = std::panic::catch_unwind(std::panic::AssertUnwindSafe(|| match kind {
                0 => (h.girth(), *girth, "girth()".to_string()),
                1..=5 => {
                    let b = 4 + 2 * ((sd >> 48) % 6) as usize;
                    (h.girth_at_node_with_max(node, b), bounded(want, b), format!("girth_at_node_with_max({node:?}, {b})"))
                }
                _ => (h.girth_at_node(node), want, format!("girth_at_node({node:?})")),
            }));
            match res {
                Err(_) => return Err(format!("query {q} of this thread panicked ({} x {} matrix)", h.num_rows(), h.num_cols())),
                Ok((got, want, what)) => {
                    if got != want {
                        return Err(format!("query {q} of this thread, {what} on a {} x {} matrix = {got:?}, the own search gives {want:?} (the same query earlier on this thread was answered correctly or never asked)", h.num_rows(), h.num_cols()));
                    }
                }
            }
            on_forest += u64::from(girth.is_none());
        }
        Ok((total, on_forest))
    }).map_err(|e| Fail::new(INCONCLUSIVE, format!("cannot start a thread: {e}")))?;
    match handle.join() {
        Ok(Ok((n, f))) => {
            p.inner += n;
            p.metric("queries_on_forests", f as f64);
            p.nontrivial();
            Ok(())
        }
        Ok(Err(e)) => Err(Fail::new("answer-depends-on-thread-history", e)),
        Err(_) => Err(Fail::new("panic", "the querying thread panicked".to_string())),
    }
}

/// fuzz-target body: a byte tape decoded into a matrix (all roots, all bounds)
pub fn fuzz_bytes(data: &[u8]) -> Check {
    let (h, _) = mat_from_bytes(data, 10, false);
    let case = Case { h, class: "fuzz".into() };
    let mut p = Probe::default();
    guarded_check(|| check(&case, &mut p))
}

pub fn property() -> Property {
    Property {
        id: "C11",
        subs: vec![
            Box::new(EnumSub {
                name: "regression",
                rule: "fixed: 4-cycle with a pendant path, empty graph, matrices with a dimension of zero (0x0, 3x0, 0x3, 1x0, 0x1), extremal graphs (incidence matrices of the projective planes of order 2, 3, 5: girth 6; the generalised quadrangle GQ(2,2): girth 8; complete bipartite graphs; single cycles of length 4, 6, 16, 22): every root, every bound",
                cases: regression,
                check,
                exhaustive: false,
            }),
            Box::new(EnumSub {
                name: "many-queries-on-one-thread",
                rule: "two fresh threads, each putting 150 000 (thorough 1 500 000) queries in pseudo-random order (girth_at_node 10/16, girth_at_node_with_max with bounds 4..=14 5/16, girth() 1/16) to a pool of 22 graphs of different sizes (the regression list plus a path, star forests, a 6-cycle beside isolated edges): every answer equals the own oracle's, whatever the thread has asked before (more than 2^16, thorough more than 2^20 queries per thread). Before that, with the number of local searches of the thread known exactly: thread 1 asks a list of up to 200 queries and asks it again 2^8, 2^16, 2^16 + 2^8 and 2^17 searches later, with only searches on a single-edge matrix in between; thread 2 asks about paths on lines that no earlier search touched as its 255th, 256th, 257th, 65 535th, 65 536th, 65 537th and 131 072nd search",
                cases: many_queries_cases,
                check: check_many_queries,
                exhaustive: false,
            }),
            Box::new(Sub {
                name: "graphs",
                rule: "Tanner graphs up to 10 x 10 (thorough 16 x 16) by class: random forests; a cycle of length 4..10 with pendant trees grown on row and column nodes; two cycles of different length (disjoint, or joined by an edge or through trees); theta graphs (cycle + chord path); dense random; complete bipartite block with pendants; forests plus 1-3 random extra edges; rows and columns relabelled at random; the matrix object is built along one of six public construction paths (single insertions, bulk insert_row / insert_col / set_row with a repeated index, parsing the own padded / unpadded alist text). For every graph: every node as root, bounds 0..=22 and usize::MAX. Oracle: plain queue BFS distances; shortest cycle through v = min over edges (v,w) of 1 + dist in G-(v,w) from w to v; girth = min over nodes; bounded variants = that value if <= bound else None; afterwards a copy of the queried object is edited once (clear_row / clear_col / set_row to empty / remove / toggle) and girth, bounded girth, one local girth and one BFS are compared with the oracles of the edited matrix. Non-trivial = cyclic graph with a root that is off every shortest cycle or on no cycle; inner = (root, bound) evaluations",
                cases: |t| t.pick(200_000, 5_000_000),
                strategy: |t| strategy(t.pick(10, 16)),
                check,
                health: &[("root-off-every-shortest-cycle", 0.20), ("root-on-no-cycle-in-cyclic-graph", 0.10)],
            }),
            Box::new(Sub {
                name: "medium",
                rule: "matrices with 3..=40 rows and 65..=400 columns (or transposed): column weights 0 (10 %), 1, or 2-3 (3 %, 12 % or 35 % of the columns anywhere, or 30-90 % of the columns of one window of 24 consecutive columns on a few shared rows, so that whole runs of 64 columns lie on no cycle while a cycle exists elsewhere), ones inserted in shuffled order: girth(), girth_with_max for bounds {0, 3..8, 10, 12, 16, 2^40, usize::MAX}, and from sixteen roots spread over the node set the local girth, eight bounded local girths and the BFS distances, against the same own oracles. Non-trivial = cyclic graph with an aligned block of 64 columns on no cycle",
                cases: |t| t.pick(3_000, 150_000),
                strategy: medium_strategy,
                check: check_medium,
                health: &[("a-64-column-block-on-no-cycle", 0.15)],
            }),
            Box::new(Sub {
                name: "wide-index",
                rule: "matrices with 2..=6 rows and 65 600 columns (or transposed) carrying 4..=12 edges whose indices in the large dimension are drawn from {0, 5, 6, 63, 100, 65535, 65536, 65541, 65542, 65599} (pairs that agree modulo 2^16): girth and bounded girth (tall layout only, where they are cheap), and local girth / bounded local girth / BFS distances from every node that carries an edge, against the same own oracles",
                cases: |t| t.pick(400, 20_000),
                strategy: wide_strategy,
                check: check_wide,
                health: &[("has-cycle", 0.15)],
            }),
        ],
        assumptions: vec!["the Tanner graph is simple (a SparseMatrix cannot hold duplicate entries), so the shortest possible cycle has length 4".into()],
    }
}
