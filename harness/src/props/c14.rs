//! C14 — demodulator LLRs are the exact posterior log-ratios of the constellation.

use crate::common::*;
use crate::engine::*;
use crate::ensure;
use ldpc_toolbox::gf2::GF2;
use ldpc_toolbox::simulation::modulation::{BpskDemodulator, BpskModulator, Demodulator, Modulator, Psk8Demodulator, Psk8Modulator};
use ndarray::Array1;
use num_complex::Complex;
use num_traits::{One, Zero};
use proptest::prelude::*;
use serde::{Deserialize, Serialize};
use std::f64::consts::PI;

/// DVB-S2 8PSK bit mapping (ETSI EN 302 307-1 figure 10): label (b0 b1 b2) -> angle
pub const TABLE: [([u8; 3], f64); 8] = [
    ([0, 0, 0], PI / 4.0),
    ([0, 0, 1], 0.0),
    ([1, 0, 1], 7.0 * PI / 4.0),
    ([1, 1, 1], 3.0 * PI / 2.0),
    ([0, 1, 1], 5.0 * PI / 4.0),
    ([0, 1, 0], PI),
    ([1, 1, 0], 3.0 * PI / 4.0),
    ([1, 0, 0], PI / 2.0),
];

pub fn gf(bits: &[u8]) -> Array1<GF2> {
    Array1::from_iter(bits.iter().map(|&b| if b == 1 { GF2::one() } else { GF2::zero() }))
}

pub fn own_point(b: [u8; 3]) -> Complex<f64> {
    let a = TABLE.iter().find(|t| t.0 == b).unwrap().1;
    Complex::new(a.cos(), a.sin())
}

/// exact 8PSK LLR of bit `b` for received sample y and noise sigma (max-shifted log-sum-exp)
pub fn own_psk8_llr(y: Complex<f64>, sigma: f64, b: usize) -> f64 {
    let sc = 1.0 / (sigma * sigma);
    let mut lse = [0.0f64; 2];
    for v in 0..2u8 {
        // the components are scaled before they are combined, so that samples near the top of the f64
        // range cannot overflow in the oracle
        let ds: Vec<f64> = TABLE.iter().filter(|t| t.0[b] == v).map(|t| (y.re * sc) * t.1.cos() + (y.im * sc) * t.1.sin()).collect();
        let m = ds.iter().cloned().fold(f64::NEG_INFINITY, f64::max);
        lse[v as usize] = m + ds.iter().map(|d| (d - m).exp()).sum::<f64>().ln();
    }
    lse[0] - lse[1]
}

// ---------------------------------------------------------------------------
// constellation (exhaustive over the 8 triples)

fn triples(_t: Tier) -> Vec<u8> {
    (0..9).collect()
}

fn check_constellation(i: &u8, p: &mut Probe) -> Check {
    p.nontrivial();
    if *i == 8 {
        // Gray property and unit energy of the own table (self-check of the oracle)
        let mut sorted: Vec<([u8; 3], f64)> = TABLE.to_vec();
        sorted.sort_by(|a, b| a.1.partial_cmp(&b.1).unwrap());
        for k in 0..8 {
            let (a, b) = (sorted[k].0, sorted[(k + 1) % 8].0);
            let diff = (0..3).filter(|&j| a[j] != b[j]).count();
            ensure!(diff == 1, "oracle", "own constellation table is not Gray between {a:?} and {b:?}");
            ensure!((sorted[(k + 1) % 8].1 - sorted[k].1).rem_euclid(2.0 * PI) - PI / 4.0 < 1e-12, "oracle", "own table is not equally spaced");
        }
        // BPSK modulator: bit 0 -> -1, bit 1 -> +1
        let m = BpskModulator::new().modulate(&gf(&[0, 1, 1, 0]));
        ensure!(m == vec![-1.0, 1.0, 1.0, -1.0], "bpsk-map", "BPSK modulator maps [0,1,1,0] to {m:?}");
        return Ok(());
    }
    let b = [(*i >> 2) & 1, (*i >> 1) & 1, *i & 1];
    let s = guarded(|| Psk8Modulator::new().modulate(&gf(&b))).map_err(|e| Fail::new("panic", format!("modulate panicked: {e}")))?;
    ensure!(s.len() == 1, "symbol-count", "three bits give {} symbols", s.len());
    let want = own_point(b);
    ensure!((s[0] - want).norm() < 1e-15, "constellation", "bits {b:?} map to {}, the DVB-S2 mapping gives {want}", s[0]);
    ensure!((s[0].norm() - 1.0).abs() < 1e-15, "unit-energy", "point for {b:?} has magnitude {}", s[0].norm());
    // hard decisions on the noiseless point, any sigma
    for sigma in [1e-3, 0.05, 0.3, 1.0, 7.0, 1e3] {
        let l = Psk8Demodulator::from_noise_sigma(sigma).demodulate(&s);
        let hd: Vec<u8> = l.iter().map(|&x| u8::from(x <= 0.0)).collect();
        ensure!(hd == b.to_vec(), "hard-decision", "noiseless {b:?} at sigma {sigma} demodulates to {hd:?} (LLRs {l:?})");
    }
    Ok(())
}

// ---------------------------------------------------------------------------
// LLR values

#[derive(Debug, Clone, Serialize, Deserialize)]
pub struct LlrCase {
    pub re: Fx,
    pub im: Fx,
    pub sigma: Fx,
}

fn sample_strategy(_t: Tier) -> BoxedStrategy<LlrCase> {
    let polar = (-6.0f64..3.0, 0.0f64..(2.0 * PI)).prop_map(|(lr, a)| {
        let r = 10f64.powf(lr);
        (r * a.cos(), r * a.sin())
    });
    let near_unit = (0.5f64..1.6, 0.0f64..(2.0 * PI)).prop_map(|(r, a)| (r * a.cos(), r * a.sin()));
    let special = (0..8usize, 0..5u8, 0.0f64..2.0).prop_map(|(k, kind, r)| {
        let a = k as f64 * PI / 4.0;
        match kind {
            0 => (a.cos(), a.sin()),                              // constellation point
            1 => ((a + PI / 8.0).cos() * r, (a + PI / 8.0).sin() * r), // decision boundary
            2 => (0.0, 0.0),
            3 => (r * if k % 2 == 0 { 1.0 } else { -1.0 }, 0.0),
            _ => (0.0, r * if k % 2 == 0 { 1.0 } else { -1.0 }),
        }
    });
    let pos = prop_oneof![4 => polar, 4 => near_unit, 2 => special];
    let sigma = prop_oneof![3 => (-3.0f64..3.0).prop_map(|l| 10f64.powf(l)), 3 => 0.05f64..1.5];
    // extreme scales: sigma anywhere in [1e-70, 1e70] with the sample scaled so that |r|/sigma^2 (the
    // magnitude of the LLRs) stays moderate, i.e. samples far inside or far outside the unit circle
    let scaled = ((-70.0f64..70.0), (-3.0f64..3.0), 0.0f64..(2.0 * PI)).prop_map(|(ls, lt, a)| {
        let sigma = 10f64.powf(ls);
        let r = 10f64.powf(lt) * sigma * sigma;
        ((r * a.cos(), r * a.sin()), sigma)
    });
    // the ends of the f64 range: sigma^2 within three decades of the largest / smallest normal number,
    // samples up to 1.2e308 per component or down into the subnormals, |r|/sigma^2 still moderate
    let ends = (prop_oneof![148.0f64..153.0, -153.0f64..-148.0], (-3.0f64..3.0), 0.0f64..(2.0 * PI)).prop_map(|(ls, lt, a)| {
        let sigma = 10f64.powf(ls);
        let r = (10f64.powf(lt) * sigma * sigma).min(1.2e308);
        ((r * a.cos(), r * a.sin()), sigma)
    });
    // the very top: both components between 0.9e308 and 1.25e308 in magnitude (their sum is beyond the
    // largest f64, their norm and every projection onto a constellation point are not), sigma^2 =
    // |r| / t with t log-uniform in [2, 1e3]
    let top = (0.9f64..1.25, 0.9f64..1.25, any::<bool>(), any::<bool>(), 0.3f64..3.0).prop_map(|(a, b, sa, sb, lt)| {
        let (re, im) = (if sa { -a } else { a } * 1e308, if sb { -b } else { b } * 1e308);
        let norm = re.hypot(im);
        ((re, im), (norm / 10f64.powf(lt)).sqrt())
    });
    prop_oneof![
        40 => (pos, sigma),
        8 => scaled,
        2 => ends,
        1 => top,
    ]
    .prop_map(|((re, im), sigma)| LlrCase { re: Fx(re), im: Fx(im), sigma: Fx(sigma) }).boxed()
}

fn check_llr(c: &LlrCase, p: &mut Probe) -> Check {
    let y = Complex::new(c.re.0, c.im.0);
    let sigma = c.sigma.0;
    let sc = 1.0 / (sigma * sigma);
    let rmag = y.norm();
    if rmag * sc > 1e12 || !(rmag * sc).is_finite() {
        p.class("skipped-out-of-floating-range");
        return Ok(());
    }
    // both public constructors of the demodulators, alternating with the case
    let via_new = c.re.0.to_bits() & 1 == 1;
    let l = guarded(|| if via_new { Psk8Demodulator::new(sigma).clone().demodulate(&[y]) } else { Psk8Demodulator::from_noise_sigma(sigma).demodulate(&[y]) }).map_err(|e| Fail::new("panic", format!("8PSK demodulate panicked: {e}")))?;
    ensure!(l.len() == 3, "llr-count", "one symbol gives {} LLRs", l.len());
    let tol = 64.0 * f64::EPSILON * (rmag * sc + 1.0);
    let mut soft = false;
    for b in 0..3 {
        let want = own_psk8_llr(y, sigma, b);
        let err = (l[b] - want).abs();
        p.metric("psk8_err_over_tol", err / tol);
        ensure!(err <= tol, "psk8-llr", "8PSK LLR of bit {b} at r = {y}, sigma = {sigma:e}: {} but log P(b=0|r)/P(b=1|r) = {want} (|diff| {err:e} > {tol:e})", l[b]);
        if want.abs() < 20.0 {
            soft = true;
        }
    }
    let lb = if via_new { BpskDemodulator::new(sigma).demodulate(&[y.re]) } else { BpskDemodulator::from_noise_sigma(sigma).clone().demodulate(&[y.re]) };
    ensure!(lb.len() == 1, "llr-count", "BPSK: one symbol gives {} LLRs", lb.len());
    let want = -2.0 * y.re * sc;
    ensure!((lb[0] - want).abs() <= 4.0 * f64::EPSILON * want.abs(), "bpsk-llr", "BPSK LLR at r = {}, sigma = {sigma:e}: {} but -2r/sigma^2 = {want}", y.re, lb[0]);
    let on_point = TABLE.iter().any(|t| (Complex::new(t.1.cos(), t.1.sin()) - y).norm() < 1e-12);
    p.class_if(soft, "soft-region");
    p.class_if(!(1e-3..=1e3).contains(&sigma), "extreme-sigma");
    p.class_if(!(1e-140..=1e140).contains(&sigma), "sigma-at-the-ends-of-the-f64-range");
    p.class_if(y.re != 0.0 && !y.re.is_normal(), "subnormal-sample");
    p.class_if(y.re.abs() + y.im.abs() == f64::INFINITY, "component-sum-beyond-the-f64-range");
    p.class_if(on_point, "on-constellation-point");
    if soft && !on_point {
        p.nontrivial();
    }
    Ok(())
}

// ---------------------------------------------------------------------------
// round trip on bit sequences

#[derive(Debug, Clone, Serialize, Deserialize)]
pub struct SeqCase {
    pub bits: Vec<u8>,
    pub sigma: Fx,
    /// memory layout of the bit array handed to the modulators
    #[serde(default)]
    pub layout: u8,
    /// pseudo-noise added to the symbols for the value-level comparison of whole sequences
    #[serde(default)]
    pub salt: u32,
}

/// at most 48 elements of a long list (messages about long sequences stay readable)
fn sh<T: std::fmt::Debug>(v: &[T]) -> String {
    if v.len() <= 48 {
        format!("{v:?}")
    } else {
        format!("{:?} ... ({} elements)", &v[..48], v.len())
    }
}

fn seq_strategy(_t: Tier) -> BoxedStrategy<SeqCase> {
    // mostly short; one in 25 a few hundred symbols (beyond any batch width), one in 300 more than
    // 2^16 bits (longer than the longest frame of the toolbox's own codes)
    (prop_oneof![270 => 0usize..40, 12 => 40usize..700, 1 => 21_846usize..22_000], prop_oneof![(-2.0f64..2.0).prop_map(|l| 10f64.powf(l)), 0.05f64..1.5])
        .prop_flat_map(|(sym, sigma)| (proptest::collection::vec(0u8..=1, 3 * sym), Just(sigma), 0..LAYOUTS, any::<u32>()))
        .prop_map(|(bits, sigma, layout, salt)| SeqCase { bits, sigma: Fx(sigma), layout, salt })
        .boxed()
}

fn check_seq(c: &SeqCase, p: &mut Probe) -> Check {
    let sigma = c.sigma.0;
    let lay = c.layout;
    let gbits: Vec<GF2> = gf(&c.bits).to_vec();
    // one modulator object, used first on a shorter sequence (objects are reused frame after frame)
    // both public constructors (the BER engine builds its modulator through Default)
    let modulator = if c.salt & 1 == 1 { Psk8Modulator::default() } else { Psk8Modulator::new() };
    if c.bits.len() >= 6 {
        let half = c.bits.len() / 6 * 3;
        let first = modulator.modulate(&gf(&c.bits[..half]));
        ensure!(first.len() * 3 == half, "symbol-count", "{half} bits give {} symbols", first.len());
    }
    let s = guarded(|| with_layout(&gbits, GF2::one(), lay, |v| modulator.modulate(&v))).map_err(|e| Fail::new("panic", format!("8PSK modulate panicked (bit array layout {}): {e}", layout_name(lay))))?;
    ensure!(s.len() * 3 == c.bits.len(), "symbol-count", "{} bits give {} symbols", c.bits.len(), s.len());
    for (k, sym) in s.iter().enumerate() {
        let want = own_point([c.bits[3 * k], c.bits[3 * k + 1], c.bits[3 * k + 2]]);
        ensure!((sym - want).norm() < 1e-15, "bit-order", "symbol {k} is {sym}, bits {:?} map to {want} (bit array layout {})", &c.bits[3 * k..3 * k + 3], layout_name(lay));
    }
    // a bit count that is not a multiple of 3: the documented behaviour is a panic; whatever is
    // returned instead must still carry every bit (no silent loss of the incomplete symbol)
    if c.salt & 16 == 16 && c.bits.len() < 3000 {
        let mut b2 = c.bits.clone();
        b2.extend((0..1 + (c.salt >> 5 & 1)).map(|i| ((c.salt >> (6 + i)) & 1) as u8));
        p.class("bit-count-not-multiple-of-3");
        if let Ok(sym) = guarded(|| modulator.modulate(&gf(&b2))) {
            let l = Psk8Demodulator::from_noise_sigma(sigma).demodulate(&sym);
            let hd: Vec<u8> = l.iter().map(|&x| u8::from(x <= 0.0)).collect();
            ensure!(hd.len() >= b2.len() && hd[..b2.len()] == b2[..], "psk8-bits-lost", "{} bits were modulated into {} symbols without a panic (documented: panics unless the count is a multiple of 3); the hard decisions {} do not return the bits {}", b2.len(), sym.len(), sh(&hd), sh(&b2));
        }
    }
    let l = Psk8Demodulator::from_noise_sigma(sigma).demodulate(&s);
    let hd: Vec<u8> = l.iter().map(|&x| u8::from(x <= 0.0)).collect();
    ensure!(hd == c.bits, "psk8-roundtrip", "8PSK hard decisions {} differ from the bits {} (sigma {sigma})", sh(&hd), sh(&c.bits));
    // whole noisy sequences, value by value: every symbol's LLRs equal the own exact posterior
    // log-ratios of that sample alone (no dependence on position in, or length of, the slice)
    let unit = |x: u64| (x >> 11) as f64 / (1u64 << 53) as f64 - 0.5;
    let noisy: Vec<Complex<f64>> = s.iter().enumerate().map(|(k, z)| {
        let a = splitmix(c.salt as u64 ^ (k as u64) << 20);
        let b = splitmix(a);
        z + Complex::new(unit(a), unit(b)) * (3.0 * sigma).min(50.0)
    }).collect();
    let dem = if c.salt & 4 == 4 { Psk8Demodulator::new(sigma) } else { Psk8Demodulator::from_noise_sigma(sigma) };
    // a quarter of the cases work on a clone of the object built (both types are Clone)
    let dem = if c.salt & 0x300 == 0x100 { dem.clone() } else { dem };
    // one case in eight: modulator and demodulators built on this thread work on another one
    let moved = c.salt & 0x1c00 == 0x0400;
    p.class_if(moved, "objects-used-on-another-thread");
    let ln = guarded(|| if moved { on_other_thread(|| dem.demodulate(&noisy)) } else { dem.demodulate(&noisy) }).map_err(|e| Fail::new("panic", format!("8PSK demodulate panicked: {e}")))?;
    ensure!(ln.len() == 3 * noisy.len(), "llr-count", "{} symbols give {} LLRs", noisy.len(), ln.len());
    let sc = 1.0 / (sigma * sigma);
    for (k, y) in noisy.iter().enumerate() {
        if y.norm() * sc > 1e12 {
            continue;
        }
        let tol = 64.0 * f64::EPSILON * (y.norm() * sc + 1.0);
        for b in 0..3 {
            let want = own_psk8_llr(*y, sigma, b);
            ensure!((ln[3 * k + b] - want).abs() <= tol, "psk8-llr-seq", "sequence of {} symbols, sigma {sigma:e}: LLR of bit {b} of symbol {k} (r = {y}) is {} but log P(b=0|r)/P(b=1|r) = {want}", noisy.len(), ln[3 * k + b]);
        }
    }
    // one case in sixteen: two demodulators of different noise levels work at the same time on two
    // threads (the workers of a simulation do, and two simulations may run at once): each returns,
    // every time, bit for bit what it returns alone
    if c.salt & 0x1e000 == 0x2000 && !noisy.is_empty() {
        p.class("two-demodulators-at-the-same-time");
        let sigma2 = if c.salt & 0x20000 == 0 { sigma * 0.5 } else { sigma * 3.0 };
        let dem2 = Psk8Demodulator::from_noise_sigma(sigma2);
        let alone2 = dem2.demodulate(&noisy);
        let (bd1, bd2) = (BpskDemodulator::from_noise_sigma(sigma), BpskDemodulator::from_noise_sigma(sigma2));
        let re: Vec<f64> = noisy.iter().map(|z| z.re).collect();
        let (alone_b1, alone_b2) = (bd1.demodulate(&re), bd2.demodulate(&re));
        let rounds = (20_000 / noisy.len()).clamp(4, 400);
        let barrier = std::sync::Barrier::new(2);
        let same = |a: &[f64], b: &[f64]| a.len() == b.len() && a.iter().zip(b).all(|(x, y)| x.to_bits() == y.to_bits());
        let run = |d: &Psk8Demodulator, b: &BpskDemodulator, want: &[f64], want_b: &[f64]| -> Option<String> {
            barrier.wait();
            for round in 0..rounds {
                match std::panic::catch_unwind(std::panic::AssertUnwindSafe(|| (d.demodulate(&noisy), b.demodulate(&re)))) {
                    Ok((l, lb)) => {
                        if !same(&l, want) {
                            return Some(format!("8PSK LLRs in round {round} differ from those the same demodulator returns alone (first difference at LLR {:?})", l.iter().zip(want).position(|(x, y)| x.to_bits() != y.to_bits())));
                        }
                        if !same(&lb, want_b) {
                            return Some(format!("BPSK LLRs in round {round} differ from those the same demodulator returns alone"));
                        }
                    }
                    Err(_) => return Some(format!("panicked in round {round}")),
                }
            }
            None
        };
        let (ra, rb) = std::thread::scope(|sc| {
            let ha = sc.spawn(|| run(&dem, &bd1, &ln, &alone_b1));
            let hb = sc.spawn(|| run(&dem2, &bd2, &alone2, &alone_b2));
            (ha.join(), hb.join())
        });
        for (sg, r) in [(sigma, ra), (sigma2, rb)] {
            match r {
                Ok(None) => {}
                Ok(Some(what)) => return Err(Fail::new("demodulators-interfere", format!("two demodulators (sigma {sigma:e} and {sigma2:e}) demodulating {} symbols at the same time on two threads: for the one with sigma {sg:e} the {what}", noisy.len()))),
                Err(_) => return Err(Fail::new("panic", "a demodulating thread panicked".to_string())),
            }
        }
    }
    // the same demodulator object on a second slice of another length
    if noisy.len() >= 2 {
        let part = &noisy[1..];
        let lp = dem.demodulate(part);
        ensure!(lp.len() == 3 * part.len() && lp.iter().zip(&ln[3..]).all(|(a, b)| a.to_bits() == b.to_bits()), "psk8-llr-slice-dependence", "the LLRs of a symbol depend on where in the slice it stands (sequence of {} symbols vs its tail)", noisy.len());
    }
    let s = guarded(|| with_layout(&gbits, GF2::one(), lay, |v| if c.salt & 2 == 2 { BpskModulator::default().modulate(&v) } else { BpskModulator::new().modulate(&v) })).map_err(|e| Fail::new("panic", format!("BPSK modulate panicked (bit array layout {}): {e}", layout_name(lay))))?;
    ensure!(s.len() == c.bits.len() && s.iter().zip(&c.bits).all(|(x, &b)| *x == if b == 1 { 1.0 } else { -1.0 }), "bpsk-map", "BPSK modulator maps {} to {} (bit array layout {})", sh(&c.bits), sh(&s.to_vec()), layout_name(lay));
    let bd = if c.salt & 8 == 8 { BpskDemodulator::new(sigma) } else { BpskDemodulator::from_noise_sigma(sigma) };
    let bd = if c.salt & 0x300 == 0x100 { bd.clone() } else { bd };
    p.class_if(c.salt & 0x300 == 0x100, "demodulators-cloned");
    let l = bd.demodulate(&s);
    let hd: Vec<u8> = l.iter().map(|&x| u8::from(x <= 0.0)).collect();
    ensure!(hd == c.bits, "bpsk-roundtrip", "BPSK hard decisions {} differ from the bits {}", sh(&hd), sh(&c.bits));
    let noisy_b: Vec<f64> = s.iter().enumerate().map(|(k, x)| x + unit(splitmix(c.salt as u64 ^ 0x77 ^ (k as u64) << 24)) * (3.0 * sigma).min(50.0)).collect();
    let lb = if moved { on_other_thread(|| bd.demodulate(&noisy_b)) } else { bd.demodulate(&noisy_b) };
    ensure!(lb.len() == noisy_b.len(), "llr-count", "BPSK: {} symbols give {} LLRs", noisy_b.len(), lb.len());
    for (k, y) in noisy_b.iter().enumerate() {
        let want = -2.0 * y * sc;
        ensure!((lb[k] - want).abs() <= 4.0 * f64::EPSILON * want.abs(), "bpsk-llr-seq", "BPSK sequence of {} symbols: LLR {k} at r = {y}, sigma {sigma:e} is {} but -2r/sigma^2 = {want}", noisy_b.len(), lb[k]);
    }
    p.class_if(lay % LAYOUTS != 0, "non-standard-layout");
    p.class_if(c.bits.len() / 3 % 4 != 0, "symbol-count-not-multiple-of-4");
    p.class_if(c.bits.len() >= 120, "forty-symbols-or-more");
    p.class_if(c.bits.len() > 65536, "more-than-65536-bits");
    if c.bits.len() >= 6 {
        p.nontrivial();
    }
    Ok(())
}

pub fn property() -> Property {
    Property {
        id: "C14",
        subs: vec![
            Box::new(EnumSub {
                name: "constellation",
                rule: "exhaustive over the 8 bit triples: modulator output = own DVB-S2 angle table (checked to be Gray and equally spaced) within 1e-15, unit energy, noiseless hard decisions return the triple for six sigmas; BPSK mapping 0 -> -1",
                cases: triples,
                check: check_constellation,
                exhaustive: true,
            }),
            Box::new(Sub {
                name: "llr",
                rule: "received samples: polar with |r| log-uniform in [1e-6, 1e3], |r| in [0.5, 1.6], exact constellation points, decision boundaries, origin, axes; sigma log-uniform in [1e-3, 1e3] or uniform in [0.05, 1.5], subject to |r|/sigma^2 <= 1e12; one case in six at an extreme scale (sigma log-uniform in [1e-70, 1e70], |r| = t sigma^2 with t log-uniform in [1e-3, 1e3]: samples far inside or outside the unit circle with moderate LLRs; one case in 25 with sigma^2 within three decades of the largest or smallest normal f64, samples up to 1.2e308 per component or down into the subnormals; one case in 50 with both components between 0.9e308 and 1.25e308); oracle: own max-shifted 4-term log-sum-exp over the label partitions (= posterior log-ratio since |s| = 1), tolerance 64 eps (|r|/sigma^2 + 1); BPSK: -2r/sigma^2 within 4 eps relative; non-trivial = sample off the constellation with some |LLR| < 20",
                cases: |t| t.pick(3_000_000, 100_000_000),
                strategy: sample_strategy,
                check: check_llr,
                health: &[("soft-region", 0.30)],
            }),
            Box::new(Sub {
                name: "roundtrip",
                rule: "bit sequences of 0..39 symbols (one in 25: 40..699 symbols, one in 300: more than 2^16 bits): every symbol equals the own mapping of its three bits in order (bit order within a symbol), hard decisions (LLR <= 0 -> 1) of the demodulated noiseless symbols return the sequence for any sigma, for 8PSK and BPSK; a bit count that is not a multiple of 3 makes the 8PSK modulator panic (documented) or, if it returns, loses no bit; modulators built by new() or Default::default(); the bit array is handed to the modulators in six memory layouts (owned, reversed view, strided views, offset sub-range); the whole sequence plus bounded pseudo-noise is demodulated in one call and every LLR compared with the own exact posterior log-ratio of its sample (8PSK: 64 eps (|r|/sigma^2 + 1), BPSK: 4 eps relative), and the same demodulator object (in a quarter of the cases a clone of the one built) on the tail of the slice returns bit-identical values; one case in sixteen: a second pair of demodulators with another sigma demodulates the same samples at the same time on a second thread, 4..400 rounds, and every result of both must be bit-identical to what the object returns alone; non-trivial = at least two symbols",
                cases: |t| t.pick(300_000, 10_000_000),
                strategy: seq_strategy,
                check: check_seq,
                health: &[],
            }),
        ],
        assumptions: vec!["the DVB-S2 8PSK angle table is the harness's own transcription of the standard's figure".into(), "samples with |r|/sigma^2 above 1e12 are outside the floating range considered and skipped (counted)".into()],
    }
}
