//! C13 — BER statistics are exact and the run terminates under every thread schedule.
//!
//! Every case runs in a child process (so that a hang or an abort is observable):
//! a scripted decoder encodes the type of every frame in its iteration count
//! (distinct powers of B = 1024), so that `total_iterations` decodes uniquely into the
//! number of counted frames of each type and every other statistic is predicted.

use super::child::*;
use crate::engine::*;
use ldpc_toolbox::decoder::{DecoderOutput, LdpcDecoder, factory::DecoderFactory};
use ldpc_toolbox::simulation::ber::{BerTest, Report, Reporter, Statistics};
use ldpc_toolbox::simulation::modulation::{Bpsk, Psk8};
use ldpc_toolbox::sparse::SparseMatrix;
use proptest::prelude::*;
use serde::{Deserialize, Serialize};
use serde_json::json;
use std::sync::atomic::{AtomicBool, AtomicUsize, Ordering};
use std::sync::{Arc, Mutex};
use std::time::{Duration, Instant};

const B: u64 = 1024;
const NTYPES: usize = 6;

#[derive(Debug, Clone, Serialize, Deserialize, PartialEq)]
pub enum Inject {
    None,
    /// puncturing pattern whose length does not divide n: the stage returns an error
    PuncturingIndivisible,
    /// interleaver columns that do not divide the transmitted length: stage panics in every worker
    InterleaverIndivisible,
    /// 8PSK with a transmitted length that is not a multiple of 3: stage panics in every worker
    Psk8Indivisible,
    /// scripted decoder panics in the workers of `mask` at their `at_frame`-th frame; with `slow`
    /// every frame of every decoder takes 30 ms, so that the surviving workers are in the middle of a
    /// frame when the faulty one is noticed (all workers must still have been joined when run() returns)
    DecoderPanic { mask: u16, at_frame: u64, #[serde(default)] slow: bool },
}

#[derive(Debug, Clone, Serialize, Deserialize)]
pub struct Case {
    pub ncpu: usize,
    pub cpu_offset: usize,
    pub bch: bool,
    /// outer-code correction threshold used when `bch` is set (and by the frame script in any case)
    #[serde(default = "default_t")]
    pub bch_t: u64,
    pub max_err: u64,
    pub delay_mode: u32,
    pub weights: [u32; NTYPES],
    pub points: usize,
    pub seed: u64,
    pub inject: Inject,
    /// run without a progress reporter (the statistics are then judged from the return value only)
    #[serde(default)]
    pub no_reporter: bool,
    /// transmission chain of the (fault-free) run: 0 = BPSK only; 1 = puncturing 1,1,1,1,0 and an
    /// interleaver of 4 columns; 2 = the same with 8 columns read backwards; 3 = 8PSK with puncturing
    /// 1,1,1,0,0 (block sizes that fit the transmitted length of 8 resp. 6 but not the codeword length 10)
    #[serde(default)]
    pub chain: u8,
}

fn default_t() -> u64 {
    2
}

/// the last entry is the "long clean run": only error-free frame types until frame 600..=899 of a
/// decoder, every frame in error from then on (used with a single worker, so that no per-type count
/// reaches the base B of the iteration encoding)
const WEIGHTS: [[u32; NTYPES]; 7] = [[5, 2, 2, 1, 1, 1], [1, 1, 1, 1, 1, 1], [12, 1, 1, 1, 1, 1], [0, 0, 1, 1, 0, 1], [3, 3, 0, 2, 1, 0], [2, 0, 3, 1, 2, 0], [600, 400, 0, 0, 0, 0]];

fn base_strategy(tier: Tier) -> impl Strategy<Value = Case> {
    let ncpu: BoxedStrategy<usize> = match tier {
        Tier::Quick => prop_oneof![Just(1usize), Just(2), Just(3), Just(5), Just(8), Just(16)].boxed(),
        Tier::Thorough => (1usize..=16).boxed(),
    };
    (ncpu, 0usize..16, (any::<bool>(), prop_oneof![1 => Just(1u64), 3 => Just(2u64), 1 => Just(3u64), 1 => Just(4u64)]), prop_oneof![1 => Just(0u64), 24 => 1u64..=40], 0u32..4, 0usize..WEIGHTS.len(), 1usize..=3, any::<u64>()).prop_map(|(ncpu, cpu_offset, (bch, bch_t), max_err, delay_mode, w, points, seed)| Case { ncpu: if w == WEIGHTS.len() - 1 { 1 } else { ncpu }, cpu_offset, bch, bch_t, max_err, delay_mode: if w == WEIGHTS.len() - 1 { delay_mode % 2 } else { delay_mode }, weights: WEIGHTS[w], points, seed, inject: Inject::None, no_reporter: seed % 5 == 0, chain: if seed % 3 == 0 { ((seed / 3) % 4) as u8 } else { 0 } })
}

fn strategy(tier: Tier) -> BoxedStrategy<Case> {
    base_strategy(tier).boxed()
}

fn inject_strategy(tier: Tier) -> BoxedStrategy<Case> {
    (
        base_strategy(tier),
        prop_oneof![
            1 => Just(Inject::PuncturingIndivisible),
            2 => Just(Inject::InterleaverIndivisible),
            2 => Just(Inject::Psk8Indivisible),
            4 => (any::<u16>(), 0u64..30, 0..3u8, prop::bool::weighted(0.4)).prop_map(|(mask, at_frame, kind, slow)| Inject::DecoderPanic {
                mask: match kind {
                    0 => 0xffff,
                    1 => mask | 1,
                    _ => mask,
                },
                at_frame: if slow { at_frame % 3 } else { at_frame },
                slow,
            }),
        ],
    )
        .prop_map(|(mut c, inject)| {
            c.inject = inject;
            // a target of zero frame errors needs no frame at all: nothing to fail on
            c.max_err = c.max_err.max(1);
            c
        })
        .boxed()
}

// ---------------------------------------------------------------------------
// parent side

fn check(case: &Case, p: &mut Probe) -> Check {
    let input = serde_json::to_value(case).unwrap();
    let res = run_child("c13", &input, Duration::from_secs(90));
    let v = match res {
        ChildResult::Exited(0, Some(v), _) => v,
        ChildResult::Exited(3, Some(v), _) => v, // hang with a positive deadlock witness (child reports it as a violation)
        ChildResult::Exited(code, v, err) => {
            return Err(Fail::new("child-crash", format!("child exited with status {code} (output {v:?}); stderr: {err}")));
        }
        ChildResult::Signalled(err) => return Err(Fail::new("child-abort", format!("child was killed by a signal (abort?); stderr: {err}"))),
        ChildResult::TimedOut(_, err) => return Err(Fail::new(INCONCLUSIVE, format!("child exceeded the 90 s watchdog without a deadlock witness for {case:?}; stderr: {err}"))),
    };
    for c in v["classes"].as_array().cloned().unwrap_or_default() {
        if let Some(s) = c.as_str() {
            let st: &'static str = match s {
                "workers>=2" => "workers>=2",
                "types>=3" => "types>=3",
                "injection" => "injection",
                "single-worker-replay" => "single-worker-replay",
                "bch" => "bch",
                "run-returned-err" => "run-returned-err",
                "workers-as-affinity" => "workers-as-affinity",
                "no-reporter" => "no-reporter",
                "zero-frame-error-target" => "zero-frame-error-target",
                "ebn0-list-with-repeats" => "ebn0-list-with-repeats",
                "ebn0-list-descending" => "ebn0-list-descending",
                "another-simulation-running-in-the-process" => "another-simulation-running-in-the-process",
                "puncturing-interleaving-or-8psk" => "puncturing-interleaving-or-8psk",
                "through-the-builder" => "through-the-builder",
                "through-the-builder-iteration-limit-0" => "through-the-builder-iteration-limit-0",
                _ => "other",
            };
            p.class(st);
        }
    }
    if v["nontrivial"].as_bool().unwrap_or(false) {
        p.nontrivial();
    }
    p.inner += v["frames"].as_u64().unwrap_or(0);
    match v["status"].as_str() {
        Some("ok") => Ok(()),
        Some("violation") => Err(Fail::new(v["key"].as_str().unwrap_or("violation"), v["msg"].as_str().unwrap_or("").to_string())),
        _ => Err(Fail::new("child-output", format!("unintelligible child output {v}"))),
    }
}

// ---------------------------------------------------------------------------
// child side

#[derive(Debug)]
struct Shared {
    seed: u64,
    k: usize,
    thr: usize,
    built: AtomicUsize,
    dropped: AtomicUsize,
    produced: Mutex<[u64; NTYPES]>,
    weights: [u32; NTYPES],
    delay_mode: u32,
    panic_mask: u16,
    panic_at: u64,
    slow: bool,
    workers_per_point: AtomicUsize,
}

#[derive(Clone, Debug)]
struct Scripted(Arc<Shared>);

impl std::fmt::Display for Scripted {
    fn fmt(&self, f: &mut std::fmt::Formatter<'_>) -> std::fmt::Result {
        write!(f, "Scripted")
    }
}

#[derive(Debug)]
struct SDec {
    sh: Arc<Shared>,
    id: usize,
    frame: u64,
}

impl Drop for SDec {
    fn drop(&mut self) {
        self.sh.dropped.fetch_add(1, Ordering::SeqCst);
    }
}

fn frame_type(seed: u64, weights: &[u32; NTYPES], id: usize, j: u64) -> (usize, u64) {
    let h = splitmix(seed ^ splitmix(id as u64 * 1_000_003 + j));
    if weights[2..].iter().all(|&w| w == 0) && j >= 600 + splitmix(seed ^ id as u64) % 300 {
        // long clean run: from here on every frame of this decoder has k bit errors
        return (5, h >> 32);
    }
    let tot: u32 = weights.iter().sum();
    let mut x = (h % tot as u64) as u32;
    let mut t = 0;
    for (i, w) in weights.iter().enumerate() {
        if x < *w {
            t = i;
            break;
        }
        x -= w;
    }
    (t, h >> 32)
}

/// type -> (bit errors in the systematic part, success verdict); `thr` is the outer-code threshold
fn type_spec(t: usize, k: usize, thr: usize) -> (usize, bool) {
    match t {
        0 => (0, true),
        1 => (0, false),
        2 => (1, false),
        3 => (thr, false),    // exactly the outer-code threshold
        4 => (thr + 1, true), // one more than the threshold, with a success verdict: false decode
        _ => (k, false),
    }
}

impl LdpcDecoder for SDec {
    fn decode(&mut self, llrs: &[f64], _max: usize) -> Result<DecoderOutput, DecoderOutput> {
        let (t, r) = frame_type(self.sh.seed, &self.sh.weights, self.id, self.frame);
        let workers = self.sh.workers_per_point.load(Ordering::Relaxed).max(1);
        if (self.sh.panic_mask >> ((self.id % workers) % 16)) & 1 == 1 && self.frame == self.sh.panic_at {
            panic!("scripted decoder panic (injected)");
        }
        self.frame += 1;
        if self.sh.slow {
            std::thread::sleep(Duration::from_millis(30));
        }
        match self.sh.delay_mode {
            1 => {
                if r % 3 == 0 {
                    std::thread::yield_now();
                }
            }
            2 => std::thread::sleep(Duration::from_micros(r % 200)),
            3 => {
                if self.id % 2 == 0 {
                    std::thread::sleep(Duration::from_micros(300));
                }
            }
            _ => {}
        }
        let (e, ok) = type_spec(t, self.sh.k, self.sh.thr);
        let mut cw: Vec<u8> = llrs.iter().map(|&x| u8::from(x <= 0.0)).collect();
        for b in cw.iter_mut().take(e) {
            *b ^= 1;
        }
        // parity bits flipped in some types: must not be counted
        if t == 1 || t == 4 {
            let n = cw.len();
            cw[n - 1] ^= 1;
        }
        self.sh.produced.lock().unwrap()[t] += 1;
        let out = DecoderOutput { codeword: cw, iterations: B.pow(t as u32) as usize };
        if ok { Ok(out) } else { Err(out) }
    }
}

impl DecoderFactory for Scripted {
    fn build_decoder(&self, _h: SparseMatrix) -> Box<dyn LdpcDecoder> {
        let id = self.0.built.fetch_add(1, Ordering::SeqCst);
        Box::new(SDec { sh: self.0.clone(), id, frame: 0 })
    }
}

fn test_h() -> SparseMatrix {
    // 4 x 10 staircase code, k = 6
    let mut h = SparseMatrix::new(4, 10);
    h.insert_row(0, [0, 1, 3, 6].iter());
    h.insert_row(1, [1, 2, 4, 6, 7].iter());
    h.insert_row(2, [0, 2, 5, 7, 8].iter());
    h.insert_row(3, [3, 4, 5, 8, 9].iter());
    h
}

fn check_stats(s: &Statistics, k: usize, thr: u64, bch: bool, max_err: u64, produced: &[u64; NTYPES], final_: bool) -> Result<[u64; NTYPES], (String, String)> {
    let mut n = [0u64; NTYPES];
    let mut x = s.total_iterations;
    for t in n.iter_mut() {
        *t = x % B;
        x /= B;
    }
    let e = |c: bool, key: &str, m: &str| if c { Ok(()) } else { Err((key.to_string(), format!("{m}: counted frames per type {n:?}, statistics {s:?}"))) };
    e(x == 0, "iterations", "total_iterations does not decode into frame types")?;
    let k = k as u64;
    e(s.num_frames == n.iter().sum::<u64>(), "num_frames", "num_frames is not the number of counted frames")?;
    e(s.ldpc.frame_errors == n[2] + n[3] + n[4] + n[5], "frame_errors", "frame errors do not add up")?;
    e(s.false_decodes == n[4], "false_decodes", "false decodes do not add up")?;
    e(s.ldpc.bit_errors == n[2] + thr * n[3] + (thr + 1) * n[4] + k * n[5], "bit_errors", "bit errors (systematic bits only) do not add up")?;
    e(s.ldpc.correct_iterations == n[0] + n[1] * B, "correct_iterations", "correct-frame iterations do not add up")?;
    let close = |a: f64, b: f64| (a.is_nan() && b.is_nan()) || a == b || (a - b).abs() <= 1e-12 * a.abs().max(b.abs());
    e(close(s.ldpc.ber, s.ldpc.bit_errors as f64 / (k as f64 * s.num_frames as f64)), "ber", "BER is not bit errors / (k * frames)")?;
    e(close(s.ldpc.fer, s.ldpc.frame_errors as f64 / s.num_frames as f64), "fer", "FER is not frame errors / frames")?;
    e(close(s.average_iterations, s.total_iterations as f64 / s.num_frames as f64), "average_iterations", "average iterations")?;
    e(close(s.ldpc.average_iterations_correct, s.ldpc.correct_iterations as f64 / (s.num_frames - s.ldpc.frame_errors) as f64), "average_iterations_correct", "average iterations of correct frames")?;
    match (bch, &s.bch) {
        (false, None) => {
            if final_ {
                e(s.ldpc.frame_errors == max_err, "stop-rule", "the point did not stop exactly at the required number of frame errors")?;
            } else {
                e(s.ldpc.frame_errors <= max_err, "stop-rule", "a progress report shows more frame errors than required")?;
            }
        }
        (true, Some(b)) => {
            // outer-code threshold T: frames with more than T bit errors are outer-code failures
            e(b.frame_errors == n[4] + n[5], "bch.frame_errors", "outer-code frame errors do not add up (frames with exactly threshold-many bit errors are correctable)")?;
            e(b.bit_errors == (thr + 1) * n[4] + k * n[5], "bch.bit_errors", "outer-code bit errors do not add up")?;
            e(b.correct_iterations == n[0] + n[1] * B + n[2] * B * B + n[3] * B * B * B, "bch.correct_iterations", "outer-code correct iterations do not add up")?;
            e(close(b.ber, b.bit_errors as f64 / (k as f64 * s.num_frames as f64)), "bch.ber", "outer-code BER")?;
            e(close(b.fer, b.frame_errors as f64 / s.num_frames as f64), "bch.fer", "outer-code FER")?;
            e(close(b.average_iterations_correct, b.correct_iterations as f64 / (s.num_frames - b.frame_errors) as f64), "bch.average_iterations_correct", "outer-code average iterations")?;
            if final_ {
                e(b.frame_errors == max_err, "stop-rule", "the point did not stop exactly at the required number of outer-code frame errors")?;
            } else {
                e(b.frame_errors <= max_err, "stop-rule", "a progress report shows more outer-code frame errors than required")?;
            }
        }
        _ => return Err(("bch-presence".into(), format!("outer-code statistics present = {}, requested = {bch}", s.bch.is_some()))),
    }
    for t in 0..NTYPES {
        e(n[t] <= produced[t], "phantom-frames", "more frames of a type were counted than the decoders produced (duplicated result?)")?;
    }
    Ok(n)
}

fn same_counts(a: &Statistics, b: &Statistics) -> bool {
    a.num_frames == b.num_frames
        && a.total_iterations == b.total_iterations
        && a.false_decodes == b.false_decodes
        && (a.ldpc.bit_errors, a.ldpc.frame_errors, a.ldpc.correct_iterations) == (b.ldpc.bit_errors, b.ldpc.frame_errors, b.ldpc.correct_iterations)
        && a.bch.as_ref().map(|x| (x.bit_errors, x.frame_errors, x.correct_iterations)) == b.bch.as_ref().map(|x| (x.bit_errors, x.frame_errors, x.correct_iterations))
}

pub fn child_main() -> ! {
    // expected worker panics must not clutter stderr
    std::panic::set_hook(Box::new(|_| {}));
    let case: Case = match serde_json::from_value(read_stdin_json()) {
        Ok(c) => c,
        Err(e) => {
            println!("{}", json!({"status": "violation", "key": "harness", "msg": format!("bad case: {e}")}));
            std::process::exit(0);
        }
    };
    let verdict = run_case(&case);
    println!("{verdict}");
    std::process::exit(if verdict["key"] == "hang" || verdict["key"] == "never-stops" { 3 } else { 0 });
}

fn run_case(c: &Case) -> serde_json::Value {
    // restrict this process to `ncpu` CPUs: num_cpus::get() (the worker count) follows the affinity mask
    unsafe {
        let mut set: libc::cpu_set_t = std::mem::zeroed();
        for i in 0..c.ncpu {
            libc::CPU_SET((c.cpu_offset + i) % 16, &mut set);
        }
        libc::sched_setaffinity(0, std::mem::size_of::<libc::cpu_set_t>(), &set);
    }
    let hh = test_h();
    let k = hh.num_cols() - hh.num_rows();
    let (mask, at, slow) = match c.inject {
        Inject::DecoderPanic { mask, at_frame, slow } => (mask, at_frame, slow),
        _ => (0, 0, false),
    };
    let sh = Arc::new(Shared { seed: c.seed, k, thr: c.bch_t as usize, built: AtomicUsize::new(0), dropped: AtomicUsize::new(0), produced: Mutex::new([0; NTYPES]), weights: c.weights, delay_mode: c.delay_mode, panic_mask: mask, panic_at: at, slow, workers_per_point: AtomicUsize::new(c.ncpu) });
    // the list of Eb/N0 points: ascending (half of the cases), descending, with a repeated value, or the
    // same value throughout (a point may be requested more than once). Lists with repeated values run
    // without a reporter: reports carry only the Eb/N0 value, which cannot tell such points apart
    let shape = (c.seed / 7) % 6;
    let ebn0s: Vec<f32> = (0..c.points)
        .map(|i| match shape {
            3 => 40.0 + (c.points - 1 - i) as f32,
            4 => 40.0 + (i / 2) as f32,
            5 => 40.0,
            _ => 40.0 + i as f32,
        })
        .collect();
    let repeated = ebn0s.windows(2).any(|w| w[0] == w[1]);
    let no_reporter = c.no_reporter || repeated;
    let (tx, rx) = std::sync::mpsc::channel();
    // without a reporter the channel is kept open by `_keep`, so that the witness monitor keeps running
    let mut _keep = None;
    let reporter = if no_reporter {
        _keep = Some(tx);
        None
    } else {
        Some(Reporter { tx, interval: Duration::from_micros(50) })
    };
    let bch_t = if c.bch { c.bch_t } else { 0 };
    let returned = Arc::new(AtomicBool::new(false));
    let reports: Arc<Mutex<Vec<Report>>> = Arc::new(Mutex::new(Vec::new()));
    // witness monitor: drains the report channel and watches for a provable hang
    let monitor = {
        let (sh, returned, reports) = (sh.clone(), returned.clone(), reports.clone());
        let (max_err, last_ebn0, bch) = (c.max_err, *ebn0s.last().unwrap(), c.bch);
        let (npoints, injected_none) = (ebn0s.len(), c.inject == Inject::None);
        std::thread::spawn(move || {
            let mut all_dead_since: Option<Instant> = None;
            let mut final_seen_since: Option<Instant> = None;
            let mut flood_since: Option<Instant> = None;
            loop {
                match rx.recv_timeout(Duration::from_millis(20)) {
                    Ok(r) => {
                        if let Report::Statistics(s) = &r {
                            let errs = if bch { s.bch.as_ref().map_or(0, |b| b.frame_errors) } else { s.ldpc.frame_errors };
                            if s.ebn0_db == last_ebn0 && errs >= max_err && final_seen_since.is_none() {
                                final_seen_since = Some(Instant::now());
                            }
                        }
                        reports.lock().unwrap().push(r);
                    }
                    Err(std::sync::mpsc::RecvTimeoutError::Disconnected) => return,
                    Err(std::sync::mpsc::RecvTimeoutError::Timeout) => {}
                }
                if returned.load(Ordering::SeqCst) {
                    // drain what is left and stop
                    while let Ok(r) = rx.try_recv() {
                        reports.lock().unwrap().push(r);
                    }
                    return;
                }
                let (b, d) = (sh.built.load(Ordering::SeqCst), sh.dropped.load(Ordering::SeqCst));
                if b > 0 && b == d {
                    let t = *all_dead_since.get_or_insert_with(Instant::now);
                    if t.elapsed() > Duration::from_secs(4) {
                        println!("{}", json!({"status": "violation", "key": "hang", "msg": format!("run() has not returned 4 s after every worker was gone (all {b} decoders built have been dropped): the collector is blocked"), "classes": ["injection"], "nontrivial": true}));
                        std::process::exit(3);
                    }
                } else {
                    all_dead_since = None;
                }
                // the decoders have long produced far more error frames than every point together needs
                // (50 times as many plus 200 000) and, 20 s later, run() has still not returned: the
                // stopping rule does not see them
                let need = max_err * npoints as u64;
                let produced_err: u64 = {
                    let pr = sh.produced.lock().unwrap();
                    if bch { pr[4] + pr[5] } else { pr[2] + pr[3] + pr[4] + pr[5] }
                };
                if injected_none && produced_err >= 50 * need + 200_000 {
                    let t = *flood_since.get_or_insert_with(Instant::now);
                    if t.elapsed() > Duration::from_secs(20) {
                        println!("{}", json!({"status": "violation", "key": "never-stops", "msg": format!("the scripted decoders have produced {produced_err} error frames, {need} are required in total, and 20 s later run() is still going: the point does not stop when the required number of frame errors has been collected"), "classes": [], "nontrivial": true}));
                        std::process::exit(3);
                    }
                }
                if let Some(t) = final_seen_since {
                    if t.elapsed() > Duration::from_secs(10) {
                        println!("{}", json!({"status": "violation", "key": "hang", "msg": "run() has not returned 10 s after the final statistics of the last Eb/N0 point were reported (a frame takes < 1 ms)", "classes": [], "nontrivial": true}));
                        std::process::exit(3);
                    }
                }
            }
        })
    };
    let viol = |key: &str, msg: String| json!({"status": "violation", "key": key, "msg": format!("{msg} [{c:?}]"), "classes": [], "nontrivial": true});
    let factory = Scripted(sh.clone());
    // one case in four (no injected fault): a second, unrelated simulation keeps running in the same
    // process on another thread while the simulation under test runs: a small code, a decoder that
    // fails every frame, one frame error per run, run after run until the main simulation is over.
    // Its results are not judged; the simulation under test must not notice it.
    let background_stop = Arc::new(AtomicBool::new(false));
    let background = if c.seed % 4 == 1 && c.inject == Inject::None {
        let stop = background_stop.clone();
        let hb = hh.clone();
        Some(std::thread::spawn(move || {
            #[derive(Clone, Debug)]
            struct Failing;
            impl std::fmt::Display for Failing {
                fn fmt(&self, f: &mut std::fmt::Formatter<'_>) -> std::fmt::Result {
                    write!(f, "Failing")
                }
            }
            #[derive(Debug)]
            struct FailingDecoder;
            impl LdpcDecoder for FailingDecoder {
                fn decode(&mut self, llrs: &[f64], max: usize) -> Result<DecoderOutput, DecoderOutput> {
                    let mut cw: Vec<u8> = llrs.iter().map(|&x| u8::from(x <= 0.0)).collect();
                    if let Some(b) = cw.first_mut() {
                        *b ^= 1;
                    }
                    Err(DecoderOutput { codeword: cw, iterations: max })
                }
            }
            impl DecoderFactory for Failing {
                fn build_decoder(&self, _h: SparseMatrix) -> Box<dyn LdpcDecoder> {
                    Box::new(FailingDecoder)
                }
            }
            while !stop.load(Ordering::SeqCst) {
                let _ = std::panic::catch_unwind(std::panic::AssertUnwindSafe(|| {
                    if let Ok(t) = BerTest::<Bpsk, _>::new(hb.clone(), Failing, None, None, 1, 3, &[30.0], None, 0) {
                        let _ = t.run();
                    }
                }));
            }
        }))
    } else {
        None
    };
    // run
    let result: Result<Result<Vec<Statistics>, String>, String> = guarded(|| {
        match c.inject {
            Inject::PuncturingIndivisible => BerTest::<Bpsk, _>::new(hh.clone(), factory, Some(&[true, true, false]), None, c.max_err, 7, &ebn0s, reporter, bch_t).map_err(|e| e.to_string())?.run().map_err(|e| e.to_string()),
            Inject::InterleaverIndivisible => BerTest::<Bpsk, _>::new(hh.clone(), factory, None, Some(if c.seed & 1 == 0 { 4 } else { -3 }), c.max_err, 7, &ebn0s, reporter, bch_t).map_err(|e| e.to_string())?.run().map_err(|e| e.to_string()),
            Inject::Psk8Indivisible => BerTest::<Psk8, _>::new(hh.clone(), factory, None, None, c.max_err, 7, &ebn0s, reporter, bch_t).map_err(|e| e.to_string())?.run().map_err(|e| e.to_string()),
            _ => match c.chain {
                1 => BerTest::<Bpsk, _>::new(hh.clone(), factory, Some(&[true, true, true, true, false]), Some(4), c.max_err, 7, &ebn0s, reporter, bch_t).map_err(|e| e.to_string())?.run().map_err(|e| e.to_string()),
                2 => BerTest::<Bpsk, _>::new(hh.clone(), factory, Some(&[true, true, true, true, false]), Some(-8), c.max_err, 7, &ebn0s, reporter, bch_t).map_err(|e| e.to_string())?.run().map_err(|e| e.to_string()),
                3 => BerTest::<Psk8, _>::new(hh.clone(), factory, Some(&[true, true, true, false, false]), None, c.max_err, 7, &ebn0s, reporter, bch_t).map_err(|e| e.to_string())?.run().map_err(|e| e.to_string()),
                // one plain configuration in six is built through BerTestBuilder (as the command-line tool
                // does), half of these with an iteration limit of 0 (legal: hard decisions only; the
                // scripted decoder does not look at the limit)
                _ if (c.seed / 7) % 6 == 3 => {
                    use ldpc_toolbox::simulation::factory::{Ber, BerTestBuilder, Modulation};
                    let b: Box<dyn Ber> = BerTestBuilder { h: hh.clone(), decoder_implementation: factory, modulation: Modulation::Bpsk, puncturing_pattern: None, interleaving_columns: None, max_frame_errors: c.max_err, max_iterations: if (c.seed / 7) % 12 == 3 { 0 } else { 7 }, ebn0s_db: &ebn0s, reporter, bch_max_errors: bch_t }.build().map_err(|e| e.to_string())?;
                    b.run().map_err(|e| e.to_string())
                }
                _ => BerTest::<Bpsk, _>::new(hh.clone(), factory, None, None, c.max_err, 7, &ebn0s, reporter, bch_t).map_err(|e| e.to_string())?.run().map_err(|e| e.to_string()),
            },
        }
    });
    // "the run joins all workers": sampled at the very moment run() returns
    let (built_at_return, dropped_at_return) = (sh.built.load(Ordering::SeqCst), sh.dropped.load(Ordering::SeqCst));
    returned.store(true, Ordering::SeqCst);
    background_stop.store(true, Ordering::SeqCst);
    let _ = monitor.join();
    // (the background thread is not joined: if its last run does not come back, that is not this case's verdict)
    let reports = std::mem::take(&mut *reports.lock().unwrap());
    let built = sh.built.load(Ordering::SeqCst);
    let dropped = sh.dropped.load(Ordering::SeqCst);
    let produced = *sh.produced.lock().unwrap();
    let frames: u64 = produced.iter().sum();
    let mut classes: Vec<&str> = Vec::new();
    if background.is_some() {
        classes.push("another-simulation-running-in-the-process");
    }
    if c.bch {
        classes.push("bch");
    }
    let run_res = match result {
        Err(p) => return viol("run-panicked", format!("BerTest::run itself panicked: {p}")),
        Ok(r) => r,
    };
    if no_reporter {
        classes.push("no-reporter");
    }
    if c.inject == Inject::None && c.chain == 0 && (c.seed / 7) % 6 == 3 {
        classes.push(if (c.seed / 7) % 12 == 3 { "through-the-builder-iteration-limit-0" } else { "through-the-builder" });
    }
    if c.chain != 0 && c.inject == Inject::None {
        classes.push("puncturing-interleaving-or-8psk");
    }
    // report stream: Finished exactly once and last
    let finished = reports.iter().filter(|r| matches!(r, Report::Finished)).count();
    if !no_reporter && (finished != 1 || reports.last() != Some(&Report::Finished)) {
        return viol("finished-report", format!("'finished' report delivered {finished} times, last report is {:?}", reports.last().map(|r| matches!(r, Report::Finished))));
    }
    if built_at_return != dropped_at_return || built != dropped {
        return viol("workers-not-joined", format!("{built_at_return} decoders were built but only {dropped_at_return} had been dropped at the moment run() returned ({dropped} a little later): not every worker was joined"));
    }
    if c.inject != Inject::None {
        classes.push("injection");
        return match (&c.inject, run_res) {
            (Inject::DecoderPanic { .. }, Ok(stats)) => {
                // only some workers died: the statistics must still satisfy the identities
                for s in &stats {
                    if let Err((key, msg)) = check_stats(s, k, c.bch_t, c.bch, c.max_err, &produced, true) {
                        return viol(&key, msg);
                    }
                }
                json!({"status": "ok", "classes": classes, "nontrivial": true, "frames": frames})
            }
            (_, Ok(stats)) => viol("error-not-reported", format!("run() returned statistics {stats:?} although no frame can be processed")),
            (_, Err(_)) => {
                classes.push("run-returned-err");
                json!({"status": "ok", "classes": classes, "nontrivial": true, "frames": frames})
            }
        };
    }
    let stats = match run_res {
        Ok(s) => s,
        Err(e) => return viol("run-error", format!("run() failed without any injected fault: {e}")),
    };
    if stats.len() != ebn0s.len() {
        return viol("points", format!("{} statistics entries for {} Eb/N0 points", stats.len(), ebn0s.len()));
    }
    let mut ns = Vec::new();
    for (s, &e) in stats.iter().zip(&ebn0s) {
        if s.ebn0_db != e {
            return viol("points", format!("statistics entry for Eb/N0 {} where {e} was requested", s.ebn0_db));
        }
        match check_stats(s, k, c.bch_t, c.bch, c.max_err, &produced, true) {
            Ok(n) => ns.push(n),
            Err((key, msg)) => return viol(&key, msg),
        }
    }
    // report stream
    let mut idx = 0;
    let mut last_frames = 0u64;
    let mut last_of: Vec<Option<Statistics>> = vec![None; ebn0s.len()];
    for r in &reports {
        if let Report::Statistics(s) = r {
            while idx < ebn0s.len() && s.ebn0_db != ebn0s[idx] {
                idx += 1;
                last_frames = 0;
            }
            if idx >= ebn0s.len() {
                return viol("report-order", "a statistics report refers to an unknown or earlier Eb/N0 point".into());
            }
            if s.num_frames < last_frames {
                return viol("report-order", format!("frame count decreased within Eb/N0 {}", s.ebn0_db));
            }
            last_frames = s.num_frames;
            if let Err((key, msg)) = check_stats(s, k, c.bch_t, c.bch, c.max_err, &produced, false) {
                return viol(&format!("report:{key}"), msg);
            }
            last_of[idx] = Some(s.clone());
        }
    }
    for (i, s) in stats.iter().enumerate() {
        if no_reporter {
            break;
        }
        match &last_of[i] {
            None => return viol("final-report", format!("no statistics report for Eb/N0 {}", s.ebn0_db)),
            Some(l) if !same_counts(l, s) => return viol("final-report", format!("the last report of Eb/N0 {} differs from the returned statistics: {l:?} vs {s:?}", s.ebn0_db)),
            _ => {}
        }
    }
    if built % ebn0s.len() != 0 || built == 0 {
        return viol("workers", format!("{built} decoders built for {} points", ebn0s.len()));
    }
    let workers = built / ebn0s.len();
    if workers == c.ncpu {
        classes.push("workers-as-affinity");
    }
    if workers >= 2 {
        classes.push("workers>=2");
    }
    if c.max_err == 0 {
        classes.push("zero-frame-error-target");
    }
    if repeated {
        classes.push("ebn0-list-with-repeats");
    }
    if shape == 3 && c.points >= 2 {
        classes.push("ebn0-list-descending");
    }
    // single worker: the counted set is exactly the script prefix
    if workers == 1 {
        classes.push("single-worker-replay");
        for (pnt, n_obs) in ns.iter().enumerate() {
            let mut n = [0u64; NTYPES];
            let mut errs = 0u64;
            let mut j = 0u64;
            while errs < c.max_err {
                let (t, _) = frame_type(c.seed, &c.weights, pnt, j);
                j += 1;
                n[t] += 1;
                let (e, _) = type_spec(t, k, c.bch_t as usize);
                let is_err = if c.bch { e as u64 > c.bch_t } else { e > 0 };
                if is_err {
                    errs += 1;
                }
            }
            if &n != n_obs {
                return viol("single-worker-prefix", format!("with one worker the counted frames must be exactly the first frames of the script: model {n:?}, observed {n_obs:?}"));
            }
        }
    }
    let types_counted = (0..NTYPES).filter(|&t| ns.iter().any(|n| n[t] > 0)).count();
    if types_counted >= 3 {
        classes.push("types>=3");
    }
    let nontrivial = workers >= 2 && types_counted >= 3;
    json!({"status": "ok", "classes": classes, "nontrivial": nontrivial, "frames": frames})
}

pub fn property() -> Property {
    Property {
        id: "C13",
        subs: vec![
            Box::new(Sub {
                name: "statistics",
                rule: "each case in a child process pinned (sched_setaffinity) to 1..16 CPUs, so that the engine starts that many workers; one plain configuration in six built through BerTestBuilder instead of BerTest::new, half of these with an iteration limit of 0; BPSK, 40 dB, no puncturing (a third of the cases: parity blocks punctured with an interleaver of 4 or -8 columns, or 8PSK with puncturing, block sizes that fit the transmitted but not the codeword length): the hard decision of the LLRs of the systematic part is the message; a scripted decoder (per decoder instance and frame: type and delay from a hash of the case seed; delays none / yield / 0-200 us sleeps / stalled even workers) returns it with e_t systematic bits flipped (parity bits too in some types), verdict v_t and iteration count B^t (B = 1024) for six frame types (one script in seven: a single worker decodes 600..=899 error-free frames in a row before its first frame error) (0, 0, 1, T = exactly the outer-code threshold, T+1 with a success verdict = false decode, k bit errors; T drawn from 1..=4), so total_iterations decodes uniquely into counted frames per type and every reported number is predicted exactly (frames, frame errors, false decodes, systematic bit errors, correct-frame iterations, outer-code accounting with threshold T, BER/FER/averages as ratios, stop exactly at max_frame_errors in 1..=40 (one case in 25: a target of 0, which every point meets before its first frame), counted <= produced per type); report stream: same identities, frame counts non-decreasing per point, last report = returned entry, 'finished' exactly once and last; all decoders built are dropped when run() returns; with one worker the counted set is exactly the script prefix; 1-3 Eb/N0 points (ascending, descending, with a value repeated or all equal; lists with repeats run without a reporter), with/without outer-code threshold; one case in five runs without a reporter (return value only); one case in four while a second, unrelated simulation keeps running on another thread of the same process; non-trivial = >= 2 workers and >= 3 frame types counted; inner = frames decoded",
                cases: |t| t.pick(6_000, 150_000),
                strategy,
                check,
                health: &[("workers>=2", 0.70), ("types>=3", 0.60)],
            }),
            Box::new(Sub {
                name: "fault-injection",
                rule: "failure-injecting configurations, each in a child process with a witness monitor: puncturing pattern that does not divide n (stage returns an error), interleaver columns / 8PSK symbol size that do not divide the transmitted length (stage panics in every worker), scripted decoder panicking in all / some workers at a generated frame (in 40 % of these every frame takes 30 ms, so that the surviving workers are mid-frame when the fault is noticed); required: run() returns (Err for the block-size cases; Err, or statistics satisfying all identities, when only some workers died), does not itself panic, 'finished' is delivered once and last, every decoder built has been dropped at the very moment run() returns (all workers joined); a hang is a violation only with a positive witness (every decoder built has been dropped and run() has not returned 4 s later, or the final report of the last point was seen and run() has not returned 10 s later); a run that is still going 20 s after the scripted decoders have produced 50 times the required error frames plus 200 000 has missed its stopping rule (violation); a bare 90 s watchdog expiry is inconclusive (exit 2)",
                cases: |t| t.pick(200, 5_000),
                strategy: inject_strategy,
                check,
                health: &[],
            }),
        ],
        assumptions: vec![
            "the harness owns worker count (CPU affinity), per-frame delays and the decoder script, not the kernel scheduler or the mpsc internals: interleavings are sampled, not enumerated".into(),
            "messages and noise come from rand::rng(); at 40 dB the hard decision of the LLRs equals the transmitted word (error probability far below 1e-100)".into(),
        ],
    }
}
