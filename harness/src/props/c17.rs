//! C17 — sparse-matrix editing behaves like a set of (row, column) positions.
//! Model-based: a BTreeSet is stepped in lock-step with the real SparseMatrix.

use crate::common::{Hinted, Unfused};
use crate::engine::*;
use crate::ensure;
use ldpc_toolbox::sparse::SparseMatrix;
use proptest::prelude::*;
use serde::{Deserialize, Serialize};
use std::collections::BTreeSet;

#[derive(Debug, Clone, Serialize, Deserialize)]
pub enum Op {
    /// `existing`: pick the k-th entry currently in the model (if any) instead of (a, b)
    Insert { a: u16, b: u16, existing: bool },
    Remove { a: u16, b: u16, existing: bool },
    Toggle { a: u16, b: u16, existing: bool },
    ClearRow { a: u16, existing: bool },
    ClearCol { a: u16, existing: bool },
    SetRow { a: u16, list: Vec<u16> },
    SetCol { a: u16, list: Vec<u16> },
    InsertRow { a: u16, list: Vec<u16> },
    InsertCol { a: u16, list: Vec<u16> },
}

#[derive(Debug, Clone, Serialize, Deserialize)]
pub struct Case {
    pub rows: usize,
    pub cols: usize,
    pub ops: Vec<Op>,
    /// 1: 130 rows, 2: 130 columns; generated indices of that dimension are then drawn from
    /// {0, 1, 2, 63, 64, 65, 66, 127, 128, 129} (indices that agree modulo 64)
    #[serde(default)]
    pub big: u8,
}

fn op_strategy() -> impl Strategy<Value = Op> {
    let cell = || (any::<u16>(), any::<u16>(), prop::bool::weighted(0.5));
    let list = || proptest::collection::vec(any::<u16>(), 0..6);
    prop_oneof![
        4 => cell().prop_map(|(a, b, existing)| Op::Insert { a, b, existing }),
        3 => cell().prop_map(|(a, b, existing)| Op::Remove { a, b, existing }),
        3 => cell().prop_map(|(a, b, existing)| Op::Toggle { a, b, existing }),
        1 => (any::<u16>(), any::<bool>()).prop_map(|(a, existing)| Op::ClearRow { a, existing }),
        1 => (any::<u16>(), any::<bool>()).prop_map(|(a, existing)| Op::ClearCol { a, existing }),
        1 => (any::<u16>(), list()).prop_map(|(a, list)| Op::SetRow { a, list }),
        1 => (any::<u16>(), list()).prop_map(|(a, list)| Op::SetCol { a, list }),
        2 => (any::<u16>(), list()).prop_map(|(a, list)| Op::InsertRow { a, list }),
        2 => (any::<u16>(), list()).prop_map(|(a, list)| Op::InsertCol { a, list }),
    ]
}

pub fn strategy(tier: Tier) -> BoxedStrategy<Case> {
    let (maxdim, maxops) = tier.pick((8usize, 60usize), (16, 120));
    (1..=maxdim, 1..=maxdim, proptest::collection::vec(op_strategy(), 0..=maxops), prop_oneof![3400 => Just(0u8), 300 => Just(1u8), 300 => Just(2u8), 2 => Just(3u8), 2 => Just(4u8), 40 => Just(5u8), 40 => Just(6u8), 1 => Just(7u8)])
        .prop_map(|(rows, cols, ops, big)| match big {
            // heavy lines: 200..=359 rows (or columns), at most 3 lines the other way, nearly full before the history starts
            5 => Case { rows: 200 + rows * 20 - 1, cols: cols.min(3), ops: ops.into_iter().take(30).collect(), big },
            6 => Case { rows: rows.min(3), cols: 200 + cols * 20 - 1, ops: ops.into_iter().take(30).collect(), big },
            1 => Case { rows: 130, cols: cols.min(4), ops, big },
            2 => Case { rows: rows.min(4), cols: 130, ops, big },
            // both dimensions beyond 2^16: rows x columns exceeds 2^32 (linear positions do not fit 32 bits)
            7 => Case { rows: 70_000, cols: 70_000, ops: ops.into_iter().take(12).collect(), big },
            3 => Case { rows: 65_600, cols: cols.min(3), ops: ops.into_iter().take(16).collect(), big },
            4 => Case { rows: rows.min(3), cols: 65_600, ops: ops.into_iter().take(16).collect(), big },
            _ => Case { rows, cols, ops, big },
        })
        .boxed()
}

/// decode a libFuzzer byte tape into a case (shared with the fuzz target)
pub fn case_from_bytes(data: &[u8]) -> Case {
    let mut it = data.iter().copied();
    let mut next = || it.next();
    let rows = 1 + (next().unwrap_or(0) % 8) as usize;
    let cols = 1 + (next().unwrap_or(0) % 8) as usize;
    let mut ops = Vec::new();
    while let Some(k) = next() {
        let mut w = || -> u16 { ((next().unwrap_or(0) as u16) << 8) | 0x80 };
        let existing = k & 0x80 != 0;
        let op = match k % 9 {
            0 => Op::Insert { a: w(), b: w(), existing },
            1 => Op::Remove { a: w(), b: w(), existing },
            2 => Op::Toggle { a: w(), b: w(), existing },
            3 => Op::ClearRow { a: w(), existing },
            4 => Op::ClearCol { a: w(), existing },
            t => {
                let a = w();
                let n = (k >> 4) & 7;
                let list = (0..n).map(|_| w()).collect();
                match t {
                    5 => Op::SetRow { a, list },
                    6 => Op::SetCol { a, list },
                    7 => Op::InsertRow { a, list },
                    _ => Op::InsertCol { a, list },
                }
            }
        };
        ops.push(op);
        if ops.len() >= 200 {
            break;
        }
    }
    Case { rows, cols, ops, big: 0 }
}

fn compare(h: &SparseMatrix, model: &BTreeSet<(usize, usize)>, rows: usize, cols: usize, step: usize) -> Check {
    let (rl, cl): (Vec<usize>, Vec<usize>) = ((0..rows).collect(), (0..cols).collect());
    compare_lines(h, model, rows, cols, step, &rl, &cl)
}

/// the comparison restricted to the given rows and columns (all of them, except for the 65 600-line
/// matrices, where only the lines the generator can touch are walked; iter_all is always complete)
fn compare_lines(h: &SparseMatrix, model: &BTreeSet<(usize, usize)>, rows: usize, cols: usize, step: usize, row_list: &[usize], col_list: &[usize]) -> Check {
    ensure!(h.num_rows() == rows && h.num_cols() == cols, "dimensions", "step {step}: dimensions changed to {}x{}", h.num_rows(), h.num_cols());
    for &r in row_list {
        for &c in col_list {
            ensure!(h.contains(r, c) == model.contains(&(r, c)), "contains", "step {step}: contains({r},{c}) = {} but the set says {}", h.contains(r, c), model.contains(&(r, c)));
        }
    }
    let mut from_rows = BTreeSet::new();
    for &r in row_list {
        let v: Vec<usize> = h.iter_row(r).copied().collect();
        let s: BTreeSet<usize> = v.iter().copied().collect();
        ensure!(s.len() == v.len(), "iter_row-duplicate", "step {step}: iter_row({r}) has duplicates: {v:?}");
        let want: BTreeSet<usize> = model.iter().filter(|e| e.0 == r).map(|e| e.1).collect();
        ensure!(s == want, "iter_row", "step {step}: iter_row({r}) = {s:?}, set says {want:?}");
        ensure!(h.row_weight(r) == want.len(), "row_weight", "step {step}: row_weight({r}) = {}, set says {}", h.row_weight(r), want.len());
        for c in s {
            from_rows.insert((r, c));
        }
    }
    let mut from_cols = BTreeSet::new();
    for &c in col_list {
        let v: Vec<usize> = h.iter_col(c).copied().collect();
        let s: BTreeSet<usize> = v.iter().copied().collect();
        ensure!(s.len() == v.len(), "iter_col-duplicate", "step {step}: iter_col({c}) has duplicates: {v:?}");
        let want: BTreeSet<usize> = model.iter().filter(|e| e.1 == c).map(|e| e.0).collect();
        ensure!(s == want, "iter_col", "step {step}: iter_col({c}) = {s:?}, set says {want:?}");
        ensure!(h.col_weight(c) == want.len(), "col_weight", "step {step}: col_weight({c}) = {}, set says {}", h.col_weight(c), want.len());
        for r in s {
            from_cols.insert((r, c));
        }
    }
    ensure!(from_rows == from_cols || row_list.len() != rows || col_list.len() != cols, "views", "step {step}: row and column views disagree");
    let all: Vec<(usize, usize)> = h.iter_all().collect();
    let alls: BTreeSet<(usize, usize)> = all.iter().copied().collect();
    ensure!(alls.len() == all.len(), "iter_all-duplicate", "step {step}: iter_all has duplicates");
    ensure!(&alls == model, "iter_all", "step {step}: iter_all = {alls:?}, set = {model:?}");
    Ok(())
}

pub fn check(case: &Case, p: &mut Probe) -> Check {
    let (rows, cols) = (case.rows, case.cols);
    let mut h = SparseMatrix::new(rows, cols);
    let mut model: BTreeSet<(usize, usize)> = BTreeSet::new();
    if rows.saturating_mul(cols) <= 1_000_000 {
        compare(&h, &model, rows, cols, 0)?;
    }
    // for the non-triviality rule
    let mut deleted_rows: BTreeSet<usize> = BTreeSet::new();
    let mut deleted_cols: BTreeSet<usize> = BTreeSet::new();
    let mut nontrivial = false;
    const ALIASED: [usize; 10] = [0, 1, 2, 63, 64, 65, 66, 127, 128, 129];
    const ALIASED16: [usize; 10] = [0, 65_536, 5, 65_541, 6, 65_542, 63, 65_599, 65_535, 100];
    let big = case.big;
    let ri = move |a: u16| -> usize {
        match big {
            1 => ALIASED[idx(a, ALIASED.len())],
            3 | 7 => ALIASED16[idx(a, ALIASED16.len())],
            _ => idx(a, rows),
        }
    };
    let ci = move |a: u16| -> usize {
        match big {
            2 => ALIASED[idx(a, ALIASED.len())],
            4 | 7 => ALIASED16[idx(a, ALIASED16.len())],
            _ => idx(a, cols),
        }
    };
    // lines walked by the comparison after every step
    let row_list: Vec<usize> = if big == 3 || big == 7 { ALIASED16.to_vec() } else { (0..rows).collect() };
    let col_list: Vec<usize> = if big == 4 || big == 7 { ALIASED16.to_vec() } else { (0..cols).collect() };
    p.class_if(big == 7, "rows-times-columns-beyond-2^32");
    p.class_if(big == 3 || big == 4, "dimension-65600-aliased-indices");
    p.class_if(big == 1 || big == 2, "dimension-130-aliased-indices");
    if big == 5 || big == 6 {
        // lines of weight in the hundreds: filled by the bulk insertions before the history starts
        p.class("heavy-lines");
        for r in 0..rows {
            for c in 0..cols {
                if (r * 7 + c * 3) % 11 != 0 {
                    model.insert((r, c));
                }
            }
        }
        if big == 5 {
            for c in 0..cols {
                h.insert_col(c, model.iter().filter(|e| e.1 == c).map(|e| e.0));
            }
        } else {
            for r in 0..rows {
                h.insert_row(r, model.iter().filter(|e| e.0 == r).map(|e| e.1));
            }
        }
        compare(&h, &model, rows, cols, 0)?;
    }
    let cell = |a: u16, b: u16, existing: bool, model: &BTreeSet<(usize, usize)>| -> (usize, usize) {
        if existing && !model.is_empty() {
            *model.iter().nth(idx(a, model.len())).unwrap()
        } else {
            (ri(a), ci(b))
        }
    };
    for (i, op) in case.ops.iter().enumerate() {
        let step = i + 1;
        // half-way through, every third history continues on a clone of the matrix
        if i == case.ops.len() / 2 && (case.ops.len() + rows + cols) % 3 == 0 {
            h = h.clone();
            p.class("history-continued-on-a-clone");
        }
        let before = model.clone();
        match op {
            Op::Insert { a, b, existing } => {
                let (r, c) = cell(*a, *b, *existing, &model);
                let present = model.contains(&(r, c));
                let old = h.clone();
                h.insert(r, c);
                model.insert((r, c));
                if present {
                    p.class("insert-present");
                    ensure!(h == old, "insert-present", "step {step}: inserting present entry ({r},{c}) changed the matrix (== is false)");
                }
            }
            Op::Remove { a, b, existing } => {
                let (r, c) = cell(*a, *b, *existing, &model);
                let present = model.contains(&(r, c));
                let old = h.clone();
                h.remove(r, c);
                model.remove(&(r, c));
                if !present {
                    p.class("remove-absent");
                    ensure!(h == old, "remove-absent", "step {step}: removing absent entry ({r},{c}) changed the matrix (== is false)");
                }
            }
            Op::Toggle { a, b, existing } => {
                let (r, c) = cell(*a, *b, *existing, &model);
                h.toggle(r, c);
                if !model.remove(&(r, c)) {
                    model.insert((r, c));
                }
            }
            Op::ClearRow { a, existing } => {
                let (r, _) = cell(*a, 0, *existing, &model);
                h.clear_row(r);
                model.retain(|e| e.0 != r);
            }
            Op::ClearCol { a, existing } => {
                let (_, c) = cell(0, *a, *existing, &model);
                h.clear_col(c);
                model.retain(|e| e.1 != c);
            }
            Op::SetRow { a, list } => {
                let r = ri(*a);
                let l: Vec<usize> = list.iter().map(|&x| ci(x)).collect();
                // the list arrives as an iterator over references or over values, with one of four truthful size hints
                let kind = (*a as usize + l.len()) as u8;
                // one bulk operation in four comes from an iterator that is not fused (None after the first
                // half of the list, then the rest): only what precedes the first None belongs to the operation
                let l: Vec<usize> = if kind & 24 == 8 {
                    let stop = l.len() / 2;
                    h.set_row(r, Unfused::new(l.clone(), stop));
                    p.class("bulk-operation-from-an-unfused-iterator");
                    l[..stop].to_vec()
                } else {
                    if kind & 4 == 0 {
                        h.set_row(r, Hinted { inner: l.iter(), kind });
                    } else {
                        h.set_row(r, Hinted { inner: l.iter().copied(), kind });
                    }
                    l
                };
                p.class_if(kind % 4 != 0, "bulk-operation-with-loose-size-hint");
                model.retain(|e| e.0 != r);
                for &c in &l {
                    model.insert((r, c));
                }
            }
            Op::SetCol { a, list } => {
                let c = ci(*a);
                let l: Vec<usize> = list.iter().map(|&x| ri(x)).collect();
                // the list arrives as an iterator over references or over values, with one of four truthful size hints
                let kind = (*a as usize + l.len()) as u8;
                // one bulk operation in four comes from an iterator that is not fused (None after the first
                // half of the list, then the rest): only what precedes the first None belongs to the operation
                let l: Vec<usize> = if kind & 24 == 8 {
                    let stop = l.len() / 2;
                    h.set_col(c, Unfused::new(l.clone(), stop));
                    p.class("bulk-operation-from-an-unfused-iterator");
                    l[..stop].to_vec()
                } else {
                    if kind & 4 == 0 {
                        h.set_col(c, Hinted { inner: l.iter(), kind });
                    } else {
                        h.set_col(c, Hinted { inner: l.iter().copied(), kind });
                    }
                    l
                };
                p.class_if(kind % 4 != 0, "bulk-operation-with-loose-size-hint");
                model.retain(|e| e.1 != c);
                for &r in &l {
                    model.insert((r, c));
                }
            }
            Op::InsertRow { a, list } => {
                let r = ri(*a);
                let l: Vec<usize> = list.iter().map(|&x| ci(x)).collect();
                // the list arrives as an iterator over references or over values, with one of four truthful size hints
                let kind = (*a as usize + l.len()) as u8;
                // one bulk operation in four comes from an iterator that is not fused (None after the first
                // half of the list, then the rest): only what precedes the first None belongs to the operation
                let l: Vec<usize> = if kind & 24 == 8 {
                    let stop = l.len() / 2;
                    h.insert_row(r, Unfused::new(l.clone(), stop));
                    p.class("bulk-operation-from-an-unfused-iterator");
                    l[..stop].to_vec()
                } else {
                    if kind & 4 == 0 {
                        h.insert_row(r, Hinted { inner: l.iter(), kind });
                    } else {
                        h.insert_row(r, Hinted { inner: l.iter().copied(), kind });
                    }
                    l
                };
                p.class_if(kind % 4 != 0, "bulk-operation-with-loose-size-hint");
                for &c in &l {
                    model.insert((r, c));
                }
            }
            Op::InsertCol { a, list } => {
                let c = ci(*a);
                let l: Vec<usize> = list.iter().map(|&x| ri(x)).collect();
                // the list arrives as an iterator over references or over values, with one of four truthful size hints
                let kind = (*a as usize + l.len()) as u8;
                // one bulk operation in four comes from an iterator that is not fused (None after the first
                // half of the list, then the rest): only what precedes the first None belongs to the operation
                let l: Vec<usize> = if kind & 24 == 8 {
                    let stop = l.len() / 2;
                    h.insert_col(c, Unfused::new(l.clone(), stop));
                    p.class("bulk-operation-from-an-unfused-iterator");
                    l[..stop].to_vec()
                } else {
                    if kind & 4 == 0 {
                        h.insert_col(c, Hinted { inner: l.iter(), kind });
                    } else {
                        h.insert_col(c, Hinted { inner: l.iter().copied(), kind });
                    }
                    l
                };
                p.class_if(kind % 4 != 0, "bulk-operation-with-loose-size-hint");
                for &r in &l {
                    model.insert((r, c));
                }
            }
        }
        compare_lines(&h, &model, rows, cols, step, &row_list, &col_list)?;
        // bookkeeping for classes
        for e in before.difference(&model) {
            deleted_rows.insert(e.0);
            deleted_cols.insert(e.1);
            p.class("deletion-removed-something");
        }
        for e in model.difference(&before) {
            if deleted_rows.contains(&e.0) || deleted_cols.contains(&e.1) {
                nontrivial = true;
            }
        }
    }
    // a clone and a rebuilt matrix describe the same set
    let hc = h.clone();
    ensure!(hc == h, "clone", "clone is not == original");
    if nontrivial {
        p.class("delete-then-insert-same-line");
        p.nontrivial();
    }
    Ok(())
}

/// shapes with a zero dimension: dimensions are kept, every query of the non-empty dimension
/// works and reports emptiness, the line operations are no-ops
fn degenerate_shapes(_t: Tier) -> Vec<(usize, usize)> {
    vec![(0, 0), (0, 1), (1, 0), (0, 5), (5, 0), (0, 70), (70, 0)]
}

fn check_degenerate(shape: &(usize, usize), p: &mut Probe) -> Check {
    let (rows, cols) = *shape;
    let mut h = guarded(|| SparseMatrix::new(rows, cols)).map_err(|e| Fail::new("panic", format!("SparseMatrix::new({rows}, {cols}) panicked: {e}")))?;
    let model: BTreeSet<(usize, usize)> = BTreeSet::new();
    guarded_check(|| compare(&h, &model, rows, cols, 0))?;
    let res = guarded(|| {
        for r in 0..rows {
            h.clear_row(r);
            h.set_row(r, std::iter::empty::<&usize>());
            h.insert_row(r, std::iter::empty::<&usize>());
        }
        for c in 0..cols {
            h.clear_col(c);
            h.set_col(c, std::iter::empty::<&usize>());
            h.insert_col(c, std::iter::empty::<&usize>());
        }
        h
    });
    let h = res.map_err(|e| Fail::new("panic", format!("a line operation on the empty {rows} x {cols} matrix panicked: {e}")))?;
    guarded_check(|| compare(&h, &model, rows, cols, 1))?;
    p.nontrivial();
    Ok(())
}

/// fuzz-target body: byte tape -> operation history -> model comparison
pub fn fuzz_bytes(data: &[u8]) -> Check {
    let case = case_from_bytes(data);
    let mut p = Probe::default();
    guarded_check(|| check(&case, &mut p))
}

pub fn property() -> Property {
    Property {
        id: "C17",
        subs: vec![
            Box::new(EnumSub {
                name: "degenerate-shapes",
                rule: "shapes with a zero dimension (0x0, 0x1, 1x0, 0x5, 5x0, 0x70, 70x0): dimensions as requested, every row/column query of the other dimension reports emptiness, clear/set/bulk-insert with empty lists are no-ops",
                cases: degenerate_shapes,
                check: check_degenerate,
                exhaustive: false,
            }),
            Box::new(Sub {
            name: "model",
            rule: "histories of 0..=60 (thorough 120) operations {insert, remove, toggle, clear_row/col, set_row/col, insert_row/col; the bulk operations receive their list as an iterator over references or values whose size hint is exact, (0, None), (0, Some(usize::MAX)) or (0, Some(len))} on shapes 1..=8 (16) squared, one history in seven on a matrix with 130 rows (or columns) whose generated indices agree modulo 64 (0, 1, 2, 63..66, 127..129), one in 50 on a matrix of 219..=359 by at most 3 (or transposed) whose lines hold hundreds of entries before the history starts, one in 4000 on a 70 000 x 70 000 matrix (rows x columns beyond 2^32), one in 1000 on a matrix with 65 600 rows (or columns) and indices that agree modulo 2^16 (short histories; only the touched lines and the all-entries iterator are walked), half of the cell operations aimed at entries currently present; after every step every query of the real matrix is compared with a BTreeSet model; non-trivial = a deletion that removed something followed by an insertion into the same row or column; distinct by digest of the whole history",
            cases: |t| t.pick(300_000, 10_000_000),
            strategy,
            check,
            health: &[("delete-then-insert-same-line", 0.40)],
        }),
        ],
        assumptions: vec![
            "indices are in range (out-of-range indexing panics by contract)".into(),
            "equality clause checked through PartialEq, which compares internal insertion order; only no-op operations are required to keep ==".into(),
        ],
    }
}
