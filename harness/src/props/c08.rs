//! C08 — alist text and matrices round-trip losslessly; the parser is total.

use crate::common::*;
use crate::engine::*;
use crate::ensure;
use ldpc_toolbox::sparse::SparseMatrix;
use proptest::prelude::*;
use serde::{Deserialize, Serialize};
use std::collections::BTreeSet;

// ---------------------------------------------------------------------------
// (a) round trip and format

/// a `fmt::Write` sink with room for a limited number of bytes
struct ShortSink {
    room: usize,
}

impl std::fmt::Write for ShortSink {
    fn write_str(&mut self, s: &str) -> std::fmt::Result {
        if s.len() > self.room {
            self.room = 0;
            return Err(std::fmt::Error);
        }
        self.room -= s.len();
        Ok(())
    }
}

pub fn matrix_strategy(maxdim: usize) -> BoxedStrategy<Mat> {
    (1..=maxdim, 1..=maxdim, 0..7u8)
        .prop_flat_map(|(r, c, class)| {
            let cells = r * c;
            let all: Vec<(usize, usize)> = (0..r).flat_map(|i| (0..c).map(move |j| (i, j))).collect();
            let pick: BoxedStrategy<Vec<(usize, usize)>> = match class {
                0 => Just(vec![]).boxed(),
                1 => proptest::sample::subsequence(all, 1..=1).boxed(),
                2 => proptest::sample::subsequence(all, 0..=(cells / 6).max(1)).boxed(),
                3 => proptest::sample::subsequence(all, cells / 3..=(cells / 2).max(1)).boxed(),
                4 => Just(all).boxed(),
                // forced empty rows / columns: choose lines to blank
                5 => (proptest::sample::subsequence(all, 0..=cells), 0..r, 0..c)
                    .prop_map(|(v, br, bc)| v.into_iter().filter(|e| e.0 != br && e.1 != bc).collect())
                    .boxed(),
                _ => proptest::sample::subsequence(all, 0..=cells).boxed(),
            };
            (pick.prop_shuffle(), Just(r), Just(c))
        })
        .prop_map(|(ones, rows, cols)| Mat { rows, cols, ones })
        .boxed()
}

/// large sparse matrices: three- and four-digit indices, weights of two digits
fn large_strategy(_t: Tier) -> BoxedStrategy<Mat> {
    // `round`: exact multiples of the usual batch, lane and buffer widths and their neighbours
    let round = || prop_oneof![Just(64usize), Just(128), Just(192), Just(255), Just(256), Just(257), Just(512), Just(768), Just(1024), Just(2048), Just(4096)];
    (prop_oneof![40 => 90usize..=130, 20 => 990usize..=1100, 20 => 1usize..=20, 15 => round(), 1 => prop_oneof![1 => Just(65_536usize), 3 => 65_537usize..=66_000]], prop_oneof![40 => 90usize..=130, 20 => 990usize..=1100, 20 => 1usize..=20, 15 => round()], 0usize..=300)
        .prop_map(|(a, b, cnt)| if a > 60_000 { if cnt % 2 == 0 { (a, b.min(3), cnt.min(40)) } else { (b.min(3), a, cnt.min(40)) } } else { (a, b, cnt) })
        .prop_flat_map(|(rows, cols, cnt)| {
            // a few heavy lines so that weights reach two digits
            (proptest::collection::vec((any::<u16>(), any::<u16>()), cnt), proptest::collection::vec((any::<bool>(), any::<u16>(), prop_oneof![2 => proptest::collection::vec(any::<u16>(), 9..=14), 1 => proptest::collection::vec(any::<u16>(), 33..=80)]), 0..=2), Just((rows, cols)))
        })
        .prop_map(|(cells, heavy, (rows, cols))| {
            let mut set = BTreeSet::new();
            let mut ones = Vec::new();
            let mut put = |e: (usize, usize), ones: &mut Vec<(usize, usize)>| {
                if set.insert(e) {
                    ones.push(e);
                }
            };
            for (a, b) in cells {
                put((idx(a, rows), idx(b, cols)), &mut ones);
            }
            for (is_row, line, others) in heavy {
                for o in others {
                    let e = if is_row { (idx(line, rows), idx(o, cols)) } else { (idx(o, rows), idx(line, cols)) };
                    put(e, &mut ones);
                }
            }
            Mat { rows, cols, ones }
        })
        .boxed()
}

fn check_roundtrip(m: &Mat, p: &mut Probe) -> Check {
    let h = m.to_sparse();
    let want = m.set();
    let rl = m.row_lists();
    let cl = m.col_lists();
    let empty_line = rl.iter().any(|r| r.is_empty()) || cl.iter().any(|c| c.is_empty());
    let irregular = rl.iter().map(|r| r.len()).collect::<BTreeSet<_>>().len() > 1
        || cl.iter().map(|r| r.len()).collect::<BTreeSet<_>>().len() > 1;
    p.class_if(want.is_empty(), "all-zero");
    p.class_if(empty_line, "empty-row-or-column");
    p.class_if(irregular, "irregular");
    p.class_if(m.rows >= 100 || m.cols >= 100, "three-digit-indices");
    p.class_if(rl.iter().chain(cl.iter()).any(|l| l.len() >= 10), "two-digit-weights");
    p.class_if(rl.iter().chain(cl.iter()).any(|l| l.len() > 32), "weight>32");
    if empty_line || irregular {
        p.nontrivial();
    }
    // a third of the cases: the matrix is first written into a sink that runs out of room part of the
    // way (the caller sees the error); what the writer returns then is not judged, what alist() gives
    // afterwards is
    if (m.ones.len() + m.rows + m.cols) % 3 == 0 {
        let full = own_alist(m, true).len();
        for (k, padded) in [(13usize, true), (29, false), (7, true)] {
            let mut sink = ShortSink { room: (m.ones.len() * k + m.rows * 5 + k) % (full + 1) };
            let r = guarded(|| if padded { h.write_alist(&mut sink) } else { h.write_alist_no_padding(&mut sink) })
                .map_err(|e| Fail::new("writer-panic", format!("write_alist into a sink that returns an error panicked: {e}")))?;
            p.class_if(r.is_err(), "after-a-write-that-failed");
        }
    }
    for padded in [true, false] {
        let which = if padded { "alist()" } else { "alist_no_padding()" };
        let text = guarded(|| if padded { h.alist() } else { h.alist_no_padding() })
            .map_err(|e| Fail::new("writer-panic", format!("{which} panicked: {e}")))?;
        // the writer-to-a-sink variant gives the same text
        let mut s2 = String::new();
        let r = if padded { h.write_alist(&mut s2) } else { h.write_alist_no_padding(&mut s2) };
        ensure!(r.is_ok() && s2 == text, "write_alist", "write_alist variant differs from {which}");
        // format
        match strict_alist(&text, Some(padded)) {
            Ok(back) => ensure!(back.rows == m.rows && back.cols == m.cols && back.set() == want, "format-matrix", "{which} text describes another matrix:\n{text}"),
            Err(e) => return Err(Fail::new("format", format!("{which} text is not a well-formed alist ({e}):\n{text}"))),
        }
        // round trip through the parser
        let parsed = guarded(|| SparseMatrix::from_alist(&text))
            .map_err(|e| Fail::new("parser-panic", format!("from_alist({which}) panicked: {e}")))?;
        let back = parsed.map_err(|e| Fail::new("roundtrip-err", format!("from_alist rejected {which} output: {e}\n{text}")))?;
        ensure!(back.num_rows() == m.rows && back.num_cols() == m.cols, "roundtrip-dims", "{which} round trip changed dimensions to {}x{}", back.num_rows(), back.num_cols());
        ensure!(sparse_set(&back) == want, "roundtrip-set", "{which} round trip changed the set of ones\n{text}");
        // second generation is textually stable
        let text2 = if padded { back.alist() } else { back.alist_no_padding() };
        ensure!(text2 == text, "roundtrip-text", "{which}: text of re-parsed matrix differs");
        // texts produced by the own writer parse to the right matrix
        let own = own_alist(m, padded);
        let parsed = guarded(|| SparseMatrix::from_alist(&own))
            .map_err(|e| Fail::new("parser-panic", format!("from_alist(own {which}) panicked: {e}")))?;
        let back = parsed.map_err(|e| Fail::new("own-text-rejected", format!("from_alist rejected a valid alist: {e}\n{own}")))?;
        ensure!(back.num_rows() == m.rows && back.num_cols() == m.cols && sparse_set(&back) == want, "own-text", "from_alist of a valid alist gives another matrix\n{own}");
    }
    // the same object written again after an edit (one of: toggle + remove, clear_row, clear_col, set_row,
    // set_col, bulk insert_row with a repeated index; line and position derived from the matrix): the
    // texts are those of the edited matrix
    if m.rows > 0 && m.cols > 0 {
        let mut h = h;
        let mut want = want;
        let pos = ((m.ones.len() * 7 + 1) % m.rows, (m.ones.len() * 3 + m.rows) % m.cols);
        // the heaviest row / column (the line that determines the maximum-weight line of the text)
        let heavy_row = (0..m.rows).max_by_key(|&i| rl[i].len()).unwrap_or(0);
        let heavy_col = (0..m.cols).max_by_key(|&j| cl[j].len()).unwrap_or(0);
        let kind = (m.ones.len() + m.rows + 2 * m.cols) % 7;
        let what = match kind {
            0 => {
                h.toggle(pos.0, pos.1);
                if !want.remove(&pos) {
                    want.insert(pos);
                }
                if let Some(&e) = m.ones.first() {
                    h.remove(e.0, e.1);
                    want.remove(&e);
                }
                format!("toggle {pos:?}, remove {:?}", m.ones.first())
            }
            1 => {
                h.clear_row(heavy_row);
                want.retain(|e| e.0 != heavy_row);
                format!("clear_row({heavy_row})")
            }
            2 => {
                h.clear_col(heavy_col);
                want.retain(|e| e.1 != heavy_col);
                format!("clear_col({heavy_col})")
            }
            3 => {
                // crosses the heaviest column
                let r = cl[heavy_col].first().copied().unwrap_or(pos.0);
                h.clear_row(r);
                want.retain(|e| e.0 != r);
                format!("clear_row({r}) across the heaviest column")
            }
            4 => {
                let c = rl[heavy_row].first().copied().unwrap_or(pos.1);
                let list = [pos.0, (pos.0 + 1) % m.rows];
                h.set_col(c, list.iter());
                want.retain(|e| e.1 != c);
                for &r in &list {
                    want.insert((r, c));
                }
                format!("set_col({c}, {list:?}) across the heaviest row")
            }
            5 => {
                let list = [pos.1, (pos.1 + 1) % m.cols, pos.1];
                h.set_row(pos.0, list.iter());
                want.retain(|e| e.0 != pos.0);
                for &c in &list {
                    want.insert((pos.0, c));
                }
                format!("set_row({}, {list:?})", pos.0)
            }
            _ => {
                let list = [pos.1, (pos.1 + 2) % m.cols, pos.1];
                h.insert_row(pos.0, list.iter());
                for &c in &list {
                    want.insert((pos.0, c));
                }
                format!("insert_row({}, {list:?})", pos.0)
            }
        };
        for padded in [true, false] {
            let which = if padded { "alist()" } else { "alist_no_padding()" };
            let text = guarded(|| if padded { h.alist() } else { h.alist_no_padding() }).map_err(|e| Fail::new("writer-panic", format!("{which} after an edit panicked: {e}")))?;
            match strict_alist(&text, Some(padded)) {
                Ok(back) => ensure!(back.rows == m.rows && back.cols == m.cols && back.set() == want, "format-matrix-after-edit", "{which} of an object that was written before and then edited ({what}) does not describe the edited matrix:\n{text}"),
                Err(e) => return Err(Fail::new("format-after-edit", format!("{which} text after an edit is not a well-formed alist ({e}):\n{text}"))),
            }
            let back = guarded(|| SparseMatrix::from_alist(&text)).map_err(|e| Fail::new("parser-panic", format!("from_alist({which} after an edit) panicked: {e}")))?.map_err(|e| Fail::new("roundtrip-err", format!("from_alist rejected {which} output after an edit: {e}\n{text}")))?;
            ensure!(sparse_set(&back) == want, "roundtrip-set-after-edit", "{which} round trip after an edit changed the set of ones\n{text}");
        }
        p.class("written-edited-written-again");
    }
    Ok(())
}

// ---------------------------------------------------------------------------
// (b) totality on arbitrary texts

#[derive(Debug, Clone, Serialize, Deserialize)]
pub enum Mutation {
    DeleteToken(u16),
    DuplicateToken(u16),
    /// a copy of the token is appended to the end of its line (a repeat with other tokens in between)
    AppendCopy(u16),
    ReplaceToken(u16, String),
    DropLine(u16),
    DuplicateLine(u16),
    SwapLines(u16, u16),
    Truncate(u16),
    Crlf,
    Tabs,
    TrailingBlanks,
}

#[derive(Debug, Clone, Serialize, Deserialize)]
pub enum TextCase {
    Mutated { base: Mat, padded: bool, muts: Vec<Mutation> },
    Soup { header: (u8, u8), body: String },
    Raw { text: String },
}

fn replacement() -> impl Strategy<Value = String> {
    prop_oneof![
        Just("0".to_string()),
        (0usize..80).prop_map(|x| x.to_string()),
        Just("1000001".to_string()),
        Just("-1".to_string()),
        Just("+3".to_string()),
        // other spellings of numbers the parser's integer conversion accepts
        Just("00".to_string()),
        Just("+0".to_string()),
        Just("000".to_string()),
        Just("-0".to_string()),
        (1usize..20).prop_map(|x| format!("0{x}")),
        (1usize..20).prop_map(|x| format!("+{x}")),
        Just("x".to_string()),
        // non-ASCII: no-break space and em space (Unicode white space), full-width and Arabic-Indic
        // digits, a combining accent, a 4-byte character
        Just("\u{a0}".to_string()),
        Just("1\u{2003}2".to_string()),
        Just("\u{ff13}".to_string()),
        Just("\u{663}".to_string()),
        Just("2\u{301}".to_string()),
        Just("\u{1f600}".to_string()),
        Just("1.5".to_string()),
        Just("123456789012345678901234567890".to_string()),
        Just("18446744073709551615".to_string()),
        Just("9223372036854775807".to_string()),
        Just("1152921504606846976".to_string()),
        Just("65536".to_string()),
        Just("18446744073709551616".to_string()),
        Just("".to_string()),
    ]
}

fn mutation() -> impl Strategy<Value = Mutation> {
    prop_oneof![
        2 => any::<u16>().prop_map(Mutation::DeleteToken),
        2 => any::<u16>().prop_map(Mutation::DuplicateToken),
        1 => any::<u16>().prop_map(Mutation::AppendCopy),
        5 => (any::<u16>(), replacement()).prop_map(|(a, s)| Mutation::ReplaceToken(a, s)),
        2 => any::<u16>().prop_map(Mutation::DropLine),
        1 => any::<u16>().prop_map(Mutation::DuplicateLine),
        1 => (any::<u16>(), any::<u16>()).prop_map(|(a, b)| Mutation::SwapLines(a, b)),
        2 => any::<u16>().prop_map(Mutation::Truncate),
        1 => Just(Mutation::Crlf),
        1 => Just(Mutation::Tabs),
        1 => Just(Mutation::TrailingBlanks),
    ]
}

pub fn text_strategy(_t: Tier) -> BoxedStrategy<TextCase> {
    prop_oneof![
        6 => (matrix_strategy(10), any::<bool>(), proptest::collection::vec(mutation(), 0..4))
            .prop_map(|(base, padded, muts)| TextCase::Mutated { base, padded, muts }),
        2 => ((0u8..=20, 0u8..=20), "[0-9 \\n\\t+\\-.a-c]{0,120}").prop_map(|(header, body)| TextCase::Soup { header, body }),
        1 => "[0-9 \\n]{0,60}".prop_map(|text| TextCase::Raw { text }),
        // arbitrary Unicode, alone or behind a small numeric header
        1 => ("\\PC{0,60}", proptest::option::weighted(0.7, (0u8..=12, 0u8..=12))).prop_map(|(body, hd)| TextCase::Raw { text: match hd { Some((a, b)) => format!("{a} {b}\n{body}"), None => body } }),
    ]
    .boxed()
}

/// Limit on declared dimensions ("moderate declared dimensions")
const MAX_DECL: usize = 2000;

pub fn render(case: &TextCase) -> String {
    match case {
        TextCase::Raw { text } => text.clone(),
        TextCase::Soup { header, body } => format!("{} {}\n{}", header.0, header.1, body),
        TextCase::Mutated { base, padded, muts } => {
            let text = own_alist(base, *padded);
            let mut lines: Vec<Vec<String>> = text
                .split('\n')
                .map(|l| l.split(' ').filter(|t| !t.is_empty()).map(|t| t.to_string()).collect())
                .collect();
            let mut sep = " ";
            let mut eol = "\n".to_string();
            let mut trailing = "";
            let mut truncate: Option<u16> = None;
            for m in muts {
                let ntok: usize = lines.iter().map(|l| l.len()).sum();
                // locate k-th token
                let locate = |k: usize, lines: &Vec<Vec<String>>| -> Option<(usize, usize)> {
                    let mut k = k;
                    for (i, l) in lines.iter().enumerate() {
                        if k < l.len() {
                            return Some((i, k));
                        }
                        k -= l.len();
                    }
                    None
                };
                match m {
                    Mutation::DeleteToken(a) => {
                        if let Some((i, j)) = locate(idx(*a, ntok), &lines) {
                            // never delete header tokens: a deleted header token would let a
                            // later, arbitrary token become a declared dimension
                            if i > 0 {
                                lines[i].remove(j);
                            }
                        }
                    }
                    Mutation::DuplicateToken(a) => {
                        if let Some((i, j)) = locate(idx(*a, ntok), &lines) {
                            if i > 0 {
                                let t = lines[i][j].clone();
                                lines[i].insert(j, t);
                            }
                        }
                    }
                    Mutation::AppendCopy(a) => {
                        if let Some((i, j)) = locate(idx(*a, ntok), &lines) {
                            if i > 0 {
                                let t = lines[i][j].clone();
                                lines[i].push(t);
                            }
                        }
                    }
                    Mutation::ReplaceToken(a, s) => {
                        if let Some((i, j)) = locate(idx(*a, ntok), &lines) {
                            if i == 0 {
                                // header: keep declared dimensions moderate
                                let ok = s.parse::<usize>().map(|v| v <= 80).unwrap_or(true);
                                if ok && !s.is_empty() {
                                    lines[i][j] = s.clone();
                                }
                            } else if s.is_empty() {
                                lines[i].remove(j);
                            } else {
                                lines[i][j] = s.clone();
                            }
                        }
                    }
                    Mutation::DropLine(a) => {
                        let i = idx(*a, lines.len());
                        if i > 0 && i < lines.len() {
                            lines.remove(i);
                        }
                    }
                    Mutation::DuplicateLine(a) => {
                        let i = idx(*a, lines.len());
                        if i > 0 && i < lines.len() {
                            let l = lines[i].clone();
                            lines.insert(i, l);
                        }
                    }
                    Mutation::SwapLines(a, b) => {
                        let (i, j) = (idx(*a, lines.len()), idx(*b, lines.len()));
                        if i > 0 && j > 0 && i < lines.len() && j < lines.len() {
                            lines.swap(i, j);
                        }
                    }
                    Mutation::Truncate(a) => truncate = Some(*a),
                    Mutation::Crlf => eol = "\r\n".to_string(),
                    Mutation::Tabs => sep = "\t",
                    Mutation::TrailingBlanks => trailing = "  ",
                }
            }
            let mut out = String::new();
            let n = lines.len();
            for (i, l) in lines.iter().enumerate() {
                out.push_str(&l.join(sep));
                if i + 1 < n {
                    out.push_str(trailing);
                    out.push_str(&eol);
                }
            }
            if let Some(a) = truncate {
                // keep the header line intact: cutting inside a header number is allowed
                // (it only shrinks the declared dimension)
                let cut = idx(a, out.len() + 1);
                let mut cut = cut.min(out.len());
                while !out.is_char_boundary(cut) {
                    cut -= 1;
                }
                out.truncate(cut);
            }
            out
        }
    }
}

/// first two whitespace separated tokens of the first line, as the parser sees them
fn declared(text: &str) -> Option<(usize, usize)> {
    let first = text.split('\n').next()?;
    let mut t = first.split_whitespace();
    let n = t.next()?.parse::<usize>().ok()?;
    let m = t.next()?.parse::<usize>().ok()?;
    Some((n, m))
}

/// the text declares at most moderate dimensions (the parser allocates what the header declares
/// before reading anything else, so a text declaring 10^17 columns aborts the process)
pub fn moderate_decl(text: &str) -> bool {
    declared(text).is_none_or(|(n, m)| n <= MAX_DECL && m <= MAX_DECL)
}

pub fn check_text_str(text: &str, p: &mut Probe) -> Check {
    if !moderate_decl(text) {
        p.class("skipped-large-declared-dims");
        return Ok(());
    }
    let res = guarded(|| SparseMatrix::from_alist(text)).map_err(|e| Fail::new("parser-panic", format!("from_alist panicked: {e}\ntext: {text:?}")))?;
    let strict = strict_alist(text, None);
    match &res {
        Ok(h) => {
            p.class("accepted");
            let Some((n, m)) = declared(text) else {
                return Err(Fail::new("accepted-without-header", format!("parser accepted a text without a numeric header: {text:?}")));
            };
            ensure!(h.num_cols() == n && h.num_rows() == m, "declared-dims", "parsed matrix is {}x{} but header declares {m}x{n}", h.num_rows(), h.num_cols());
            for (r, c) in h.iter_all() {
                ensure!(r < m && c < n, "entry-range", "parsed matrix has entry ({r},{c}) outside {m}x{n}");
            }
            for c in 0..n {
                for &r in h.iter_col(c) {
                    ensure!(r < m && h.contains(r, c), "entry-range", "column view has entry ({r},{c}) outside the matrix");
                }
            }
            // parsed => re-written text parses to the same matrix
            let again = guarded(|| h.alist()).map_err(|e| Fail::new("writer-panic", format!("alist() of a parsed matrix panicked: {e}; input {text:?}")))?;
            // the parsed object is a proper binary matrix: no position twice, and its text is a
            // well-formed alist of exactly that set
            let all: Vec<(usize, usize)> = h.iter_all().collect();
            ensure!(all.len() == sparse_set(h).len(), "parsed-duplicates", "the parsed matrix lists {} entries but has {} distinct ones (a position is stored twice); input {text:?}", all.len(), sparse_set(h).len());
            match strict_alist(&again, Some(true)) {
                Ok(back) => ensure!(back.rows == m && back.cols == n && back.set() == sparse_set(h), "rewrite-format", "alist() of the parsed matrix describes another matrix; input {text:?}"),
                Err(e) => return Err(Fail::new("rewrite-format", format!("alist() of the parsed matrix is not a well-formed alist ({e}); input {text:?}\noutput:\n{again}"))),
            }
            let h2 = SparseMatrix::from_alist(&again).map_err(|e| Fail::new("rewrite", format!("re-written text rejected: {e}")))?;
            ensure!(sparse_set(&h2) == sparse_set(h), "rewrite", "re-written text parses to another matrix");
        }
        Err(_) => p.class("rejected"),
    }
    if let Ok(want) = strict {
        // a well-formed alist must be accepted and give exactly that matrix
        p.class("strictly-valid");
        match &res {
            Ok(h) => ensure!(h.num_rows() == want.rows && h.num_cols() == want.cols && sparse_set(h) == want.set(), "valid-alist-wrong-matrix", "well-formed alist parsed to another matrix: {text:?}"),
            Err(e) => return Err(Fail::new("valid-alist-rejected", format!("well-formed alist rejected ({e}): {text:?}"))),
        }
    }
    Ok(())
}

fn check_text(case: &TextCase, p: &mut Probe) -> Check {
    let text = render(case);
    let mutated = match case {
        TextCase::Mutated { muts, .. } => !muts.is_empty(),
        _ => true,
    };
    let past_header = declared(&text).is_some();
    p.class_if(mutated, "mutated");
    p.class_if(past_header, "past-header");
    let before = p.classes.len();
    let r = check_text_str(&text, p);
    let _ = before;
    if mutated && past_header {
        p.nontrivial();
        if p.classes.contains(&"accepted") {
            p.class("mutated-accepted");
        }
        if p.classes.contains(&"rejected") {
            p.class("mutated-rejected");
        }
    }
    r
}

/// fuzz-target body: bytes -> lossy UTF-8 -> totality oracle
pub fn fuzz_bytes(data: &[u8]) -> Check {
    let text = String::from_utf8_lossy(data);
    let mut p = Probe::default();
    guarded_check(|| check_text_str(&text, &mut p))
}

fn regression_cases(_t: Tier) -> Vec<TextCase> {
    let raw = |s: &str| TextCase::Raw { text: s.to_string() };
    vec![
        // D3: row index beyond nrows
        raw("2 2\n1 1\n1 1\n1 1\n3\n1\n1\n2\n"),
        raw(""),
        raw("\n"),
        raw("3"),
        raw("3 2"),
        raw("3 2\n"),
        raw("0 0\n0 0\n\n\n"),
        raw("1 1\n1 1\n1\n1\n1\n1\n"),
        raw("2 1\n1 2\n1 1\n2\n1\n1\n1 2\n"),
        raw("2 2\n1 1\n1 1\n1 1\n18446744073709551615\n1\n1\n2\n"),
        raw("2 2\n1 1\n1 1\n1 1\n0\n0\n\n\n"),
        // D2: all-zero matrix through the mutated path with no mutation
        TextCase::Mutated { base: Mat::new(2, 3), padded: true, muts: vec![] },
    ]
}

fn zero_matrices(_t: Tier) -> Vec<Mat> {
    let mut v = Vec::new();
    for r in 1..=4 {
        for c in 1..=4 {
            v.push(Mat::new(r, c));
        }
    }
    // the repository's own test matrices
    let mut h = Mat::new(4, 12);
    for j in 0..4 {
        h.ones.extend([(j, j), (j, j + 4), (j, j + 8)]);
    }
    v.push(h.clone());
    h.ones.retain(|&(r, c)| !(c >= 8 && r >= 2));
    v.push(h);
    v
}

pub fn property() -> Property {
    Property {
        id: "C08",
        subs: vec![
            Box::new(EnumSub {
                name: "roundtrip-fixed",
                rule: "fixed list: all all-zero matrices up to 4x4 and the repository's test matrices, through the full round-trip/format oracle",
                cases: zero_matrices,
                check: check_roundtrip,
                exhaustive: false,
            }),
            Box::new(Sub {
                name: "roundtrip",
                rule: "(afterwards the written object is edited - toggle and removal, clear_row / clear_col of the heaviest line or across it, set_row / set_col, bulk insert_row with a repeated index - and written again: the texts must be those of the edited matrix) matrices 1..=12 x 1..=12 in seven density classes (all-zero, single entry, sparse, about half, full, forced empty row+column, uniform), ones inserted in shuffled order; oracle: alist()/alist_no_padding()/write_* -> own strict reader (header, true maxima, weight lines, strictly increasing 1-based lists, padding exactly to the maximum) and -> from_alist gives same dimensions and set; own writer's padded and unpadded texts parse to the matrix; non-trivial = an empty row/column or irregular weights",
                cases: |t| t.pick(500_000, 10_000_000),
                strategy: |t| matrix_strategy(t.pick(12, 24)),
                check: check_roundtrip,
                health: &[("empty-row-or-column", 0.30), ("all-zero", 0.02)],
            }),
            Box::new(Sub {
                name: "roundtrip-large",
                rule: "large sparse matrices (dimensions 90..=130 or 990..=1100, occasionally 1..=20, one dimension in six a round size from {64, 128, 192, 255, 256, 257, 512, 768, 1024, 2048, 4096}, one case in 95 with 65 536 or more rows or columns against at most 3 of the other kind, up to 300 random ones plus up to two rows/columns of weight 9..=14 or 33..=80, insertion order random): indices of three and four digits, weights of two digits; same round-trip/format oracle",
                cases: |t| t.pick(20_000, 600_000),
                strategy: large_strategy,
                check: check_roundtrip,
                health: &[("three-digit-indices", 0.50), ("two-digit-weights", 0.20)],
            }),
            Box::new(EnumSub {
                name: "totality-fixed",
                rule: "regression list of hand-written texts (out-of-range index, empty, truncated headers, zero-sized, 2^64-1 index)",
                cases: regression_cases,
                check: check_text,
                exhaustive: false,
            }),
            Box::new(Sub {
                name: "totality",
                rule: "texts: valid alists (own writer) under 0..=3 token/line/byte-level mutations (delete/duplicate/append a copy at the end of the line/replace token by 0, small numbers, other spellings (00, +0, 000, -0, 07, +7), 1000001, -1, +3, letters, 1.5, 30-digit and 2^64 numbers; drop/duplicate/swap lines; truncate at any byte; CRLF; tabs; trailing blanks), token soups behind a numeric header, raw digit/space/newline strings, arbitrary Unicode strings (alone or behind a small numeric header), non-ASCII replacement tokens (no-break / em space, full-width and Arabic-Indic digits, combining accent, 4-byte character); declared dimensions kept <= 80 by construction; oracle: from_alist never panics, Ok(h) has the declared dimensions and in-range entries, stores no position twice, and re-writes to a well-formed alist (own strict reader) of the same matrix, and any text the own strict reader accepts must be accepted with exactly that matrix; non-trivial = mutated text that gets past the header",
                cases: |t| t.pick(1_000_000, 30_000_000),
                strategy: text_strategy,
                check: check_text,
                health: &[("mutated-accepted", 0.20), ("mutated-rejected", 0.20)],
            }),
        ],
        assumptions: vec![
            "declared dimensions above 2000 are outside 'moderate declared dimensions' and skipped (counted as class skipped-large-declared-dims)".into(),
            "matrix equality is compared as sets of ones through contains(), not PartialEq".into(),
        ],
    }
}
