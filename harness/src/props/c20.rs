//! C20 — the command-line tool emits exactly what the library computes.
//! The binary built from the working tree (LDPC_TOOLBOX_BIN) is run as a subprocess.

use crate::common::*;
use crate::engine::*;
use crate::ensure;
use ldpc_toolbox::codes::ccsds::{AR4JACode, AR4JAInfoSize, AR4JARate, C2Code};
use ldpc_toolbox::encoder::Encoder;
use ldpc_toolbox::gf2::GF2;
use ldpc_toolbox::simulation::puncturing::Puncturer;
use ldpc_toolbox::sparse::SparseMatrix;
use ldpc_toolbox::systematic::parity_to_systematic;
use ldpc_toolbox::{mackay_neal, peg};
use ndarray::Array1;
use num_traits::{One, Zero};
use proptest::prelude::*;
use serde::{Deserialize, Serialize};
use std::io::Read;
use std::path::PathBuf;
use std::process::{Command, Stdio};
use std::sync::atomic::{AtomicU64, Ordering};
use std::time::{Duration, Instant};

pub struct Run {
    pub code: Option<i32>,
    pub stdout: String,
    pub stderr: String,
}

fn bin() -> Result<String, Fail> {
    std::env::var("LDPC_TOOLBOX_BIN").map_err(|_| Fail::new(INCONCLUSIVE, "LDPC_TOOLBOX_BIN is not set (run through ./check, which builds the binary from the working tree)".to_string()))
}

pub fn run_cli(args: &[String], timeout: Duration) -> Result<Run, Fail> {
    run_cli_fed(args, timeout, None)
}

/// `feed`: bytes written to the standard input of the tool in the given pieces, with a pause of
/// 40 ms after each piece (a pipe whose writer is slower than the reader), then end of file
pub fn run_cli_fed(args: &[String], timeout: Duration, feed: Option<Vec<Vec<u8>>>) -> Result<Run, Fail> {
    let mut cmd = Command::new(bin()?);
    cmd.args(args).stdin(if feed.is_some() { Stdio::piped() } else { Stdio::null() }).stdout(Stdio::piped()).stderr(Stdio::piped());
    // cap the address space of the tool (a BER run that cannot terminate fills an unbounded channel)
    unsafe {
        use std::os::unix::process::CommandExt;
        cmd.pre_exec(|| {
            let lim = libc::rlimit { rlim_cur: 6 << 30, rlim_max: 6 << 30 };
            libc::setrlimit(libc::RLIMIT_AS, &lim);
            Ok(())
        });
    }
    let mut child = cmd.spawn().map_err(|e| Fail::new(INCONCLUSIVE, format!("cannot start the binary: {e}")))?;
    if let Some(pieces) = feed {
        let mut si = child.stdin.take().unwrap();
        std::thread::spawn(move || {
            use std::io::Write;
            for piece in pieces {
                if si.write_all(&piece).is_err() || si.flush().is_err() {
                    break;
                }
                std::thread::sleep(Duration::from_millis(40));
            }
        });
    }
    let mut so = child.stdout.take().unwrap();
    let mut se = child.stderr.take().unwrap();
    let t1 = std::thread::spawn(move || {
        let mut v = Vec::new();
        let _ = so.read_to_end(&mut v);
        String::from_utf8_lossy(&v).to_string()
    });
    let t2 = std::thread::spawn(move || {
        let mut v = Vec::new();
        let _ = se.read_to_end(&mut v);
        String::from_utf8_lossy(&v).to_string()
    });
    let start = Instant::now();
    let status = loop {
        match child.try_wait() {
            Ok(Some(s)) => break s,
            Ok(None) => {
                if start.elapsed() > timeout {
                    let _ = child.kill();
                    let _ = child.wait();
                    return Err(Fail::new(INCONCLUSIVE, format!("ldpc-toolbox {args:?} exceeded the {timeout:?} watchdog")));
                }
                std::thread::sleep(Duration::from_millis(1));
            }
            Err(e) => return Err(Fail::new(INCONCLUSIVE, format!("wait failed: {e}"))),
        }
    };
    Ok(Run { code: status.code(), stdout: t1.join().unwrap_or_default(), stderr: t2.join().unwrap_or_default() })
}

fn sv(a: &[&str]) -> Vec<String> {
    a.iter().map(|s| s.to_string()).collect()
}

fn expect_failure(r: &Run, what: &str) -> Check {
    ensure!(r.code.is_some(), "killed-by-signal", "{what}: the process was killed by a signal; stderr: {}", r.stderr);
    ensure!(r.code != Some(0), "error-exit-status", "{what}: exit status 0 although the arguments are invalid (stdout {:?})", &r.stdout[..r.stdout.len().min(200)]);
    ensure!(!r.stderr.contains("panicked at"), "panic-instead-of-error", "{what}: the tool panicked instead of reporting an error: {}", r.stderr);
    ensure!(!r.stderr.trim().is_empty(), "no-message", "{what}: non-zero exit status without any message on stderr");
    Ok(())
}

/// the integers appearing in a text (the wording around a printed girth is not part of the property)
fn integers_in(text: &str) -> Vec<u64> {
    text.split(|c: char| !c.is_ascii_digit()).filter(|t| !t.is_empty()).filter_map(|t| t.parse().ok()).collect()
}

fn expect_success(r: &Run, what: &str) -> Check {
    ensure!(r.code == Some(0), "exit-status", "{what}: exit status {:?}; stderr: {}", r.code, r.stderr);
    ensure!(!r.stderr.contains("panicked at"), "panic", "{what}: panic message on stderr: {}", r.stderr);
    Ok(())
}

static COUNTER: AtomicU64 = AtomicU64::new(0);

struct Scratch(PathBuf);

impl Scratch {
    fn new() -> Scratch {
        let dir = PathBuf::from(std::env::var("VERIF_SCRATCH").unwrap_or_else(|_| format!("{}/target/tmp", std::env::var("VERIF_DIR").unwrap_or_else(|_| "/verif".into()))));
        let d = dir.join(format!("c20-{}-{}", std::process::id(), COUNTER.fetch_add(1, Ordering::Relaxed)));
        let _ = std::fs::create_dir_all(&d);
        Scratch(d)
    }
    fn path(&self, name: &str) -> String {
        self.0.join(name).to_str().unwrap().to_string()
    }
}

impl Drop for Scratch {
    fn drop(&mut self) {
        let _ = std::fs::remove_dir_all(&self.0);
    }
}

// ---------------------------------------------------------------------------
// code generation subcommands (exhaustive)

#[derive(Debug, Clone, Serialize, Deserialize)]
pub enum GenCase {
    Dvbs2 { rate: String, short: bool },
    Dvbs2Invalid { rate: String, short: bool },
    Dvbs2Girth,
    Ccsds { rate: String, k: usize },
    CcsdsInvalid { rate: String, k: String },
    CcsdsGirth,
    /// `--girth` for any code: the printed value must be the girth of the matrix the library builds
    /// (own layered search); `k` = 0 stands for a DVB-S2 code (`short` applies), otherwise CCSDS
    AnyGirth { rate: String, short: bool, k: usize },
    CcsdsC2,
    BerHelpNames,
    NoSubcommand,
}

const NORMAL_RATES: [&str; 11] = ["1/4", "1/3", "2/5", "1/2", "3/5", "2/3", "3/4", "4/5", "5/6", "8/9", "9/10"];
const SHORT_RATES: [&str; 10] = ["1/4", "1/3", "2/5", "1/2", "3/5", "2/3", "3/4", "4/5", "5/6", "8/9"];

fn gen_cases(t: Tier) -> Vec<GenCase> {
    let mut v = Vec::new();
    for r in NORMAL_RATES {
        v.push(GenCase::Dvbs2 { rate: r.into(), short: false });
    }
    for r in SHORT_RATES {
        v.push(GenCase::Dvbs2 { rate: r.into(), short: true });
    }
    for (r, s) in [("7/8", false), ("9/10", true), ("abc", false), ("", false), ("1/2 ", false), ("2/4", false), ("0.5", true), ("1/5", true), ("0/0", false), ("1/0", true), ("0/1", false), ("-1/2", false), ("1/2/3", true), ("/", false), ("18446744073709551616/2", false), ("3", false)] {
        v.push(GenCase::Dvbs2Invalid { rate: r.into(), short: s });
    }
    v.push(GenCase::Dvbs2Girth);
    for k in [1024usize, 4096, 16384] {
        for r in ["1/2", "2/3", "4/5"] {
            if k == 16384 && t == Tier::Quick && r == "1/2" {
                // 24576 x 40960 alist (several MB) only in the thorough tier
                continue;
            }
            v.push(GenCase::Ccsds { rate: r.into(), k });
        }
    }
    for (r, k) in [("3/4", "1024"), ("1/2", "2048"), ("1/2", "abc"), ("", "1024"), ("4/5", "0"), ("1/2", "-1024"), ("0/0", "1024"), ("1/0", "1024"), ("0/1", "4096"), ("-1/2", "1024"), ("1/2/3", "1024"), ("/", "1024"), ("18446744073709551616/2", "1024"), ("1/2", "18446744073709551616"), ("7/8", "1024"), ("2", "1024")] {
        v.push(GenCase::CcsdsInvalid { rate: r.into(), k: k.into() });
    }
    v.push(GenCase::CcsdsGirth);
    for r in NORMAL_RATES {
        v.push(GenCase::AnyGirth { rate: r.into(), short: false, k: 0 });
    }
    for r in SHORT_RATES {
        v.push(GenCase::AnyGirth { rate: r.into(), short: true, k: 0 });
    }
    for k in [1024usize, 4096, 16384] {
        for r in ["1/2", "2/3", "4/5"] {
            v.push(GenCase::AnyGirth { rate: r.into(), short: false, k });
        }
    }
    v.push(GenCase::CcsdsC2);
    v.push(GenCase::BerHelpNames);
    v.push(GenCase::NoSubcommand);
    v
}

fn dvbs2_code(rate: &str, short: bool) -> Option<ldpc_toolbox::codes::dvbs2::Code> {
    let name = format!("R{}{}", rate.replace('/', "_"), if short { "short" } else { "" });
    super::c06::all_codes().into_iter().find(|(n, _)| *n == name).map(|x| x.1)
}

fn check_gen(c: &GenCase, p: &mut Probe) -> Check {
    p.nontrivial();
    let long = Duration::from_secs(300);
    match c {
        GenCase::Dvbs2 { rate, short } => {
            let mut args = sv(&["dvbs2", "--rate", rate]);
            if *short {
                args.push("--short".into());
            }
            let r = run_cli(&args, long)?;
            expect_success(&r, &format!("dvbs2 {rate} short={short}"))?;
            let code = dvbs2_code(rate, *short).ok_or_else(|| Fail::new("missing-code", format!("no library code for rate {rate} short={short}")))?;
            let want = code.h().alist();
            ensure!(r.stdout == want, "dvbs2-output", "dvbs2 --rate {rate}{}: stdout ({} bytes) is not the alist of Code::h() ({} bytes)", if *short { " --short" } else { "" }, r.stdout.len(), want.len());
            p.inner += want.len() as u64;
        }
        GenCase::Dvbs2Invalid { rate, short } => {
            let mut args = sv(&["dvbs2", "--rate", rate]);
            if *short {
                args.push("--short".into());
            }
            let r = run_cli(&args, long)?;
            // other spellings of the value one half ("1/2 ", "2/4", "0.5") are not the documented
            // spelling, and the tool refuses them today; a tool that takes them for rate 1/2 and prints
            // exactly that matrix does not break the property either
            let half = matches!(rate.as_str(), "1/2 " | "2/4" | "0.5");
            if half && r.code == Some(0) {
                let want = if *short { ldpc_toolbox::codes::dvbs2::Code::R1_2short } else { ldpc_toolbox::codes::dvbs2::Code::R1_2 }.h().alist();
                ensure!(r.stdout == want, "dvbs2-output", "dvbs2 --rate {rate:?} short={short}: accepted, but stdout is not the alist of the rate 1/2 matrix");
                p.class("lenient-rate-spelling-accepted");
                return Ok(());
            }
            expect_failure(&r, &format!("dvbs2 --rate {rate:?} short={short}"))?;
            ensure!(r.stdout.is_empty(), "output-on-error", "dvbs2 --rate {rate:?}: wrote {} bytes to stdout although the rate is invalid", r.stdout.len());
        }
        GenCase::Dvbs2Girth => {
            let r = run_cli(&sv(&["dvbs2", "--rate", "1/2", "--girth"]), long)?;
            expect_success(&r, "dvbs2 --rate 1/2 --girth")?;
            ensure!(integers_in(&r.stdout) == vec![6], "girth-output", "dvbs2 --rate 1/2 --girth printed {:?}, documented girth is 6", r.stdout);
        }
        GenCase::Ccsds { rate, k } => {
            let r = run_cli(&sv(&["ccsds", "--rate", rate, "--block-size", &k.to_string()]), long)?;
            expect_success(&r, &format!("ccsds {rate} {k}"))?;
            let rt = match rate.as_str() {
                "1/2" => AR4JARate::R1_2,
                "2/3" => AR4JARate::R2_3,
                _ => AR4JARate::R4_5,
            };
            let ks = match k {
                1024 => AR4JAInfoSize::K1024,
                4096 => AR4JAInfoSize::K4096,
                _ => AR4JAInfoSize::K16384,
            };
            let want = AR4JACode::new(rt, ks).h().alist();
            ensure!(r.stdout == want, "ccsds-output", "ccsds --rate {rate} --block-size {k}: stdout is not the alist of AR4JACode::h()");
            p.inner += want.len() as u64;
        }
        GenCase::CcsdsInvalid { rate, k } => {
            let r = run_cli(&sv(&["ccsds", "--rate", rate, "--block-size", k]), long)?;
            expect_failure(&r, &format!("ccsds --rate {rate:?} --block-size {k:?}"))?;
            ensure!(r.stdout.is_empty(), "output-on-error", "ccsds with invalid arguments wrote to stdout");
        }
        GenCase::CcsdsGirth => {
            let r = run_cli(&sv(&["ccsds", "--rate", "1/2", "--block-size", "1024", "--girth"]), long)?;
            expect_success(&r, "ccsds --girth")?;
            ensure!(integers_in(&r.stdout) == vec![6], "girth-output", "ccsds --rate 1/2 --block-size 1024 --girth printed {:?}, documented girth is 6", r.stdout);
        }
        GenCase::AnyGirth { rate, short, k } => {
            let (args, h) = if *k == 0 {
                let code = dvbs2_code(rate, *short).ok_or_else(|| Fail::new("missing-code", format!("no library code for rate {rate} short={short}")))?;
                let mut a = sv(&["dvbs2", "--rate", rate, "--girth"]);
                if *short {
                    a.push("--short".into());
                }
                (a, code.h())
            } else {
                let rt = match rate.as_str() {
                    "1/2" => AR4JARate::R1_2,
                    "2/3" => AR4JARate::R2_3,
                    _ => AR4JARate::R4_5,
                };
                let ks = match k {
                    1024 => AR4JAInfoSize::K1024,
                    4096 => AR4JAInfoSize::K4096,
                    _ => AR4JAInfoSize::K16384,
                };
                (sv(&["ccsds", "--rate", rate, "--block-size", &k.to_string(), "--girth"]), AR4JACode::new(rt, ks).h())
            };
            // own girth of the matrix the library builds: layered search, smallest bound first
            let adj = adjacency(&h);
            let own = [4usize, 6, 8, 10, 12, 14].iter().find_map(|&b| bounded_girth(&adj, b));
            let r = run_cli(&args, long)?;
            expect_success(&r, &format!("{args:?}"))?;
            let Some(g) = own else {
                return Err(Fail::new(INCONCLUSIVE, format!("{args:?}: own search found no cycle up to length 14")));
            };
            ensure!(integers_in(&r.stdout) == vec![g as u64], "girth-output", "{args:?} printed {:?}, the matrix the library builds has girth {own:?}", r.stdout.trim());
            p.inner += h.num_cols() as u64;
        }
        GenCase::CcsdsC2 => {
            let r = run_cli(&sv(&["ccsds-c2"]), long)?;
            expect_success(&r, "ccsds-c2")?;
            ensure!(r.stdout == C2Code::new().h().alist(), "c2-output", "ccsds-c2: stdout is not the alist of C2Code::h()");
        }
        GenCase::BerHelpNames => {
            let r = run_cli(&sv(&["ber", "--help"]), long)?;
            expect_success(&r, "ber --help")?;
            // each name must appear as a whole word (the layout of the help text is clap's business)
            let words: std::collections::BTreeSet<&str> = r.stdout.split(|c: char| !c.is_ascii_alphanumeric()).collect();
            for n in super::impls::NAMES {
                ensure!(words.contains(n), "help-names", "ber --help does not offer the decoder name {n}");
            }
        }
        GenCase::NoSubcommand => {
            let r = run_cli(&sv(&["frobnicate"]), long)?;
            expect_failure(&r, "unknown subcommand")?;
        }
    }
    Ok(())
}

// ---------------------------------------------------------------------------
// peg / mackay-neal

#[derive(Debug, Clone, Serialize, Deserialize)]
pub enum ConCase {
    Peg { rows: usize, cols: usize, wc: usize, seed: u64, girth: bool },
    Mn { rows: usize, cols: usize, wr: usize, wc: usize, seed: u64, backtrack_cols: usize, backtrack_trials: usize, min_girth: Option<usize>, girth_trials: usize, uniform: bool, search: Option<u64> },
}

fn con_strategy(_t: Tier) -> BoxedStrategy<ConCase> {
    prop_oneof![
        2 => (1usize..=8, 1usize..=14, 1usize..=4, prop_oneof![6 => any::<u64>(), 1 => Just(u64::MAX), 1 => Just(u64::MAX - 1), 1 => Just(0u64)], any::<bool>()).prop_map(|(rows, cols, wc, seed, girth)| ConCase::Peg { rows, cols, wc, seed, girth }),
        5 => ((2usize..=10, 2usize..=20, 1usize..=3, 0usize..=2, any::<bool>()), (prop_oneof![3 => Just(None), 1 => Just(Some(4usize)), 3 => Just(Some(6usize)), 1 => Just(Some(8usize))], 0usize..=10, 0usize..=2, 0usize..=3), (prop_oneof![5 => any::<u64>(), 2 => 0u64..1000, 1 => Just(u64::MAX), 1 => Just(u64::MAX - 1)], proptest::option::weighted(0.5, 1u64..=40)))
            .prop_map(|((rows, cols, wc, slack, uniform), (min_girth, girth_trials, backtrack_cols, backtrack_trials), (seed, search))| {
                let wc = wc.min(rows);
                // a seed search over start..start+trials must not run past 2^64 (documented assumption of C16)
                let seed = if search.is_some() { seed.min(u64::MAX - 100) } else { seed };
                ConCase::Mn { rows, cols, wr: (cols * wc).div_ceil(rows) + slack, wc, seed, backtrack_cols, backtrack_trials, min_girth, girth_trials, uniform, search }
            }),
    ]
    .boxed()
}

fn check_con(c: &ConCase, p: &mut Probe) -> Check {
    let t = Duration::from_secs(120);
    match c {
        ConCase::Peg { rows, cols, wc, seed, girth } => {
            let mut args = sv(&["peg", &rows.to_string(), &cols.to_string(), &wc.to_string(), &seed.to_string()]);
            if *girth {
                args.push("--girth".into());
            }
            let r = run_cli(&args, t)?;
            let lib = peg::Config { nrows: *rows, ncols: *cols, wc: *wc }.run(*seed);
            match lib {
                Ok(h) => {
                    expect_success(&r, &format!("{args:?}"))?;
                    ensure!(r.stdout == format!("{}\n", h.alist()), "peg-output", "{args:?}: stdout differs from the alist of peg::Config::run");
                    if *girth {
                        let g = Graph::from_mat(&Mat::from_sparse(&h)).girth();
                        // the alist goes to stdout, the girth line to stderr: the number (or, for a
                        // forest, no number at all) is what is compared, not the wording
                        let nums = integers_in(&r.stderr);
                        match g {
                            Some(g) => ensure!(nums == vec![g as u64], "peg-girth", "{args:?}: stderr {:?} does not report the girth {g}", r.stderr),
                            None => ensure!(nums.is_empty() && !r.stderr.trim().is_empty(), "peg-girth", "{args:?}: stderr {:?} does not report an acyclic graph", r.stderr),
                        }
                    }
                    p.class("peg");
                    p.nontrivial();
                }
                Err(_) => expect_failure(&r, &format!("{args:?}"))?,
            }
        }
        ConCase::Mn { rows, cols, wr, wc, seed, backtrack_cols, backtrack_trials, min_girth, girth_trials, uniform, search } => {
            let mut args = sv(&["mackay-neal", &rows.to_string(), &cols.to_string(), &wr.to_string(), &wc.to_string(), &seed.to_string(), "--backtrack-cols", &backtrack_cols.to_string(), "--backtrack-trials", &backtrack_trials.to_string(), "--girth-trials", &girth_trials.to_string()]);
            if let Some(g) = min_girth {
                args.extend(sv(&["--min-girth", &g.to_string()]));
            }
            if *uniform {
                args.push("--uniform".into());
            }
            if let Some(n) = search {
                args.extend(sv(&["--search", "--seed-trials", &n.to_string()]));
            }
            let conf = mackay_neal::Config { nrows: *rows, ncols: *cols, wr: *wr, wc: *wc, backtrack_cols: *backtrack_cols, backtrack_trials: *backtrack_trials, min_girth: *min_girth, girth_trials: *girth_trials, fill_policy: if *uniform { mackay_neal::FillPolicy::Uniform } else { mackay_neal::FillPolicy::Random } };
            let r = run_cli(&args, t)?;
            match search {
                None => match conf.run(*seed) {
                    Ok(h) => {
                        expect_success(&r, &format!("{args:?}"))?;
                        ensure!(r.stdout == format!("{}\n", h.alist()), "mn-output", "{args:?}: stdout differs from the alist of mackay_neal::Config::run");
                        p.class("mn-success");
                        p.nontrivial();
                    }
                    Err(_) => {
                        expect_failure(&r, &format!("{args:?}"))?;
                        ensure!(r.stdout.is_empty(), "output-on-error", "{args:?}: wrote to stdout although the construction failed");
                        p.class("mn-failure");
                    }
                },
                Some(n) => {
                    let ok_seeds: Vec<u64> = (*seed..*seed + *n).filter(|&s| conf.run(s).is_ok()).collect();
                    if r.code == Some(0) {
                        ensure!(!r.stderr.contains("panicked at"), "panic", "{args:?}: {}", r.stderr);
                        let s: u64 = r.stderr.lines().find_map(|l| l.trim().strip_prefix("seed = ").and_then(|x| x.parse().ok())).ok_or_else(|| Fail::new("mn-search-seed", format!("{args:?}: no 'seed = N' line on stderr: {:?}", r.stderr)))?;
                        ensure!(s >= *seed && s < *seed + *n, "mn-search-range", "{args:?}: reported seed {s} outside the requested range");
                        let h = conf.run(s).map_err(|_| Fail::new("mn-search-matrix", format!("{args:?}: reported seed {s} fails in the library")))?;
                        ensure!(r.stdout == format!("{}\n", h.alist()), "mn-search-matrix", "{args:?}: stdout is not the matrix of the reported seed {s}");
                        p.class("mn-search-success");
                        p.nontrivial();
                    } else {
                        expect_failure(&r, &format!("{args:?}"))?;
                        ensure!(ok_seeds.is_empty(), "mn-search-none", "{args:?}: reported no solution although seeds {ok_seeds:?} succeed");
                        p.class("mn-search-failure");
                    }
                }
            }
        }
    }
    Ok(())
}

// ---------------------------------------------------------------------------
// systematic

#[derive(Debug, Clone, Serialize, Deserialize)]
pub struct SysCase {
    pub h: Mat,
    pub padded: bool,
}

fn sys_strategy(_t: Tier) -> BoxedStrategy<SysCase> {
    prop_oneof![
        8 => (super::c09::strategy(10), any::<bool>()).prop_map(|(h, padded)| SysCase { h, padded }),
        // more rows than columns: the library reports ParityOverdetermined
        1 => (super::c08::matrix_strategy(6), any::<bool>()).prop_map(|(h, padded)| SysCase { h, padded }),
    ]
    .boxed()
}

fn check_sys(c: &SysCase, p: &mut Probe) -> Check {
    let s = Scratch::new();
    let text = own_alist(&c.h, c.padded);
    let f = s.path("h.alist");
    // one matrix file in five is a named pipe fed in two pieces
    let piped = text.len() % 5 == 2;
    write_file_or_pipe(std::path::Path::new(&f), &text, piped).map_err(|e| Fail::new(INCONCLUSIVE, format!("scratch write: {e}")))?;
    p.class_if(piped, "matrix-file-is-a-pipe");
    let r = run_cli(&sv(&["systematic", &f]), Duration::from_secs(60))?;
    let parsed = SparseMatrix::from_alist(&text).map_err(|e| Fail::new("harness", format!("own alist rejected: {e}")))?;
    match guarded(|| parity_to_systematic(&parsed)).map_err(|e| Fail::new("library-panic", format!("parity_to_systematic panicked: {e}")))? {
        Ok(hs) => {
            expect_success(&r, "systematic")?;
            ensure!(r.stdout == format!("{}\n", hs.alist()), "systematic-output", "systematic: stdout differs from the alist of parity_to_systematic for\n{text}");
            p.class("converted");
            p.nontrivial();
        }
        Err(_) => {
            expect_failure(&r, "systematic on a rank-deficient or overdetermined matrix")?;
            ensure!(r.stdout.is_empty(), "output-on-error", "systematic wrote to stdout although the conversion failed");
            p.class("rejected");
        }
    }
    Ok(())
}

// ---------------------------------------------------------------------------
// encode

#[derive(Debug, Clone, Serialize, Deserialize)]
pub enum EncFault {
    None,
    BadPattern(String),
    MissingInput,
    MissingAlist,
    IndivisiblePattern,
    /// the output file cannot be created (its directory does not exist)
    BadOutput,
}

#[derive(Debug, Clone, Serialize, Deserialize)]
pub struct EncCase {
    pub h: Mat,
    pub pattern: Option<Vec<bool>>,
    pub words: Vec<Vec<u8>>,
    pub trailing: usize,
    pub fault: EncFault,
}

fn enc_strategy(_t: Tier) -> BoxedStrategy<EncCase> {
    (prop_oneof![3 => 1usize..=4, 1 => 5usize..=11], prop_oneof![12 => 1usize..=6, 1 => 7usize..=40], any::<u16>(), any::<bool>())
        .prop_flat_map(|(p, bs, rraw, staircase)| {
            let n = (p * bs).max(2);
            let r = 1 + idx(rraw, (n - 1).min(8)); // 1 <= r <= n-1, so k >= 1
            let k = n - r;
            (
                Just((n, r, p, staircase)),
                proptest::collection::vec(prop::bool::weighted(0.4), r * k),
                proptest::collection::vec(prop::bool::weighted(0.3), r * r),
                proptest::collection::vec(any::<u16>(), r),
                (proptest::collection::vec(any::<bool>(), p), any::<u16>(), prop::bool::weighted(0.6)),
                (prop_oneof![12 => proptest::collection::vec(proptest::collection::vec(0u8..=1, k), 0..=5), 1 => proptest::collection::vec(proptest::collection::vec(0u8..=1, k), 700..=3000)], 0..k),
                prop_oneof![
                    12 => Just(EncFault::None),
                    1 => prop_oneof![Just("1,2".to_string()), Just("a".to_string()), Just("".to_string()), Just(",".to_string()), Just("x,1".to_string()), Just("1;0".to_string()), Just("2".to_string())].prop_map(EncFault::BadPattern),
                    1 => Just(EncFault::MissingInput),
                    1 => Just(EncFault::MissingAlist),
                    1 => Just(EncFault::IndivisiblePattern),
                    1 => Just(EncFault::BadOutput),
                ],
            )
        })
        .prop_map(|((n, r, p, staircase), h0, tail, fix, (mut pat, a, use_pat), (words, trailing), fault)| {
            if !pat.iter().any(|&b| b) {
                let i = idx(a, pat.len());
                pat[i] = true;
            }
            let pattern = if use_pat && n % p == 0 { Some(pat) } else { None };
            EncCase { h: super::c12::systematic_h(r, n, &h0, &tail, staircase, &fix), pattern, words, trailing, fault }
        })
        .boxed()
}

fn check_enc(c: &EncCase, p: &mut Probe) -> Check {
    let s = Scratch::new();
    let (n, r) = (c.h.cols, c.h.rows);
    let k = n - r;
    // the alist file in the padded or in the unpadded form (both are accepted by the parser)
    let text = own_alist(&c.h, (c.words.len() + c.trailing) % 2 == 0);
    let (fa, fi, fo) = (s.path("h.alist"), s.path("in.bin"), s.path("out.bin"));
    // one valid case in five: the alist file is a named pipe fed in two pieces
    let piped = matches!(c.fault, EncFault::None) && text.len() % 5 == 2;
    write_file_or_pipe(std::path::Path::new(&fa), &text, piped).map_err(|e| Fail::new(INCONCLUSIVE, format!("scratch write: {e}")))?;
    p.class_if(piped, "matrix-file-is-a-pipe");
    let mut input: Vec<u8> = c.words.iter().flatten().copied().collect();
    let mut words = c.words.clone();
    if matches!(c.fault, EncFault::IndivisiblePattern) && words.is_empty() {
        words.push(vec![1; k]);
        input = words.iter().flatten().copied().collect();
    }
    input.extend(std::iter::repeat_n(1u8, c.trailing.min(k.saturating_sub(1))));
    std::fs::write(&fi, &input).map_err(|e| Fail::new(INCONCLUSIVE, format!("scratch write: {e}")))?;
    let pat_string = |v: &[bool]| v.iter().map(|&b| if b { "1" } else { "0" }).collect::<Vec<_>>().join(",");
    let mut args = sv(&["encode", &fa, &fi, &fo]);
    let mut pattern = c.pattern.clone();
    match &c.fault {
        EncFault::None => {}
        EncFault::BadPattern(s) => {
            args.extend(sv(&["--puncturing", s]));
            pattern = None;
        }
        EncFault::MissingInput => args[2] = s.path("no-such-input"),
        EncFault::MissingAlist => args[1] = s.path("no-such-alist"),
        EncFault::BadOutput => args[3] = format!("{}/out.bin", s.path("no-such-directory")),
        EncFault::IndivisiblePattern => {
            // a pattern whose length does not divide n
            let len = (2..=n + 1).find(|l| n % l != 0).unwrap_or(n + 1);
            pattern = Some(vec![true; len]);
        }
    }
    if !matches!(c.fault, EncFault::BadPattern(_)) {
        if let Some(pt) = &pattern {
            args.extend(sv(&["--puncturing", &pat_string(pt)]));
        }
    }
    // one valid case in four: the input is a pipe (the tool's standard input, named /dev/stdin) whose
    // writer delivers the bytes in two or three pieces that end inside a word
    let mut feed = None;
    if matches!(c.fault, EncFault::None) && input.len() >= 2 && (words.len() * 7 + c.trailing + n) % 4 == 0 && std::path::Path::new("/dev/stdin").exists() {
        let a = (input.len() * 3 / 7).clamp(1, input.len() - 1);
        let b = (a + k / 2 + 1).min(input.len());
        feed = Some(vec![input[..a].to_vec(), input[a..b].to_vec(), input[b..].to_vec()]);
        args[2] = "/dev/stdin".into();
        p.class("input-from-a-slow-pipe");
    }
    let run = run_cli_fed(&args, Duration::from_secs(60), feed)?;
    if !matches!(c.fault, EncFault::None) {
        p.class("encode-fault");
        expect_failure(&run, &format!("encode with {:?}", c.fault))?;
        return Ok(());
    }
    expect_success(&run, &format!("{args:?}"))?;
    let parsed = SparseMatrix::from_alist(&text).map_err(|e| Fail::new("harness", format!("own alist rejected: {e}")))?;
    let enc = Encoder::from_h(&parsed).map_err(|e| Fail::new("harness", format!("generated matrix not systematic: {e}")))?;
    let punct = pattern.as_ref().map(|pt| Puncturer::new(pt));
    let mut want: Vec<u8> = Vec::new();
    for w in &words {
        let cw = enc.encode(&Array1::from_iter(w.iter().map(|&b| if b == 1 { GF2::one() } else { GF2::zero() })));
        let cw = match &punct {
            Some(pu) => pu.puncture(&cw).map_err(|e| Fail::new("harness", format!("puncture: {e}")))?,
            None => cw,
        };
        want.extend(cw.iter().map(|x| u8::from(x.is_one())));
    }
    let got = std::fs::read(&fo).map_err(|e| Fail::new("no-output-file", format!("{args:?}: output file missing: {e}")))?;
    if got != want {
        let key = if got.len() != want.len() { "encode-length" } else { "encode-content" };
        return Err(Fail::new(key, format!("{args:?}: output file has {} bytes {:?}, expected exactly the {} (punctured) codewords = {} bytes {:?}", got.len(), &got[..got.len().min(40)], words.len(), want.len(), &want[..want.len().min(40)])));
    }
    p.class_if(pattern.as_ref().is_some_and(|v| v.iter().any(|&b| !b)), "punctured");
    p.class_if(c.trailing > 0 && k > 1, "trailing-bytes");
    if !words.is_empty() {
        p.nontrivial();
    }
    Ok(())
}

// ---------------------------------------------------------------------------
// ber

#[derive(Debug, Clone, Serialize, Deserialize)]
pub struct BerCase {
    pub h: Mat,
    pub min: Fx,
    pub step: Fx,
    pub points: usize,
    pub extra_half_step: bool,
    /// > 0: decimal grid, minimum and step in hundredths of a dB (min/step above are then ignored)
    #[serde(default)]
    pub dstep: i32,
    #[serde(default)]
    pub dmin: i32,
    pub frame_errors: u64,
    pub max_iter: usize,
    pub decoder: String,
    pub bch: u64,
    pub ldpc_file: bool,
    pub pattern: Option<Vec<bool>>,
    pub interleaving: Option<isize>,
    pub psk8: bool,
    pub fault: u8,
}

fn ber_strategy(_t: Tier) -> BoxedStrategy<BerCase> {
    (1usize..=3, 1usize..=3, any::<u16>(), any::<bool>())
        .prop_flat_map(|(p, bsm, rraw, staircase)| {
            let bs = 3 * bsm;
            let n = p * bs;
            let r = 2 + idx(rraw, (n - 2).min(5));
            let k = n - r;
            (
                Just((n, r, p, bs, staircase)),
                proptest::collection::vec(prop::bool::weighted(0.4), r * k),
                proptest::collection::vec(prop::bool::weighted(0.3), r * r),
                proptest::collection::vec(any::<u16>(), r),
                (proptest::collection::vec(any::<bool>(), p), any::<u16>(), prop::bool::weighted(0.4), 0..3u8, any::<u16>(), any::<bool>()),
                (prop_oneof![Just(-2.0f64), Just(-1.5), Just(0.0), Just(0.25), Just(1.0)], prop_oneof![4 => Just(0.5f64), 4 => Just(0.25), 4 => Just(1.0), 1 => Just(0.004), 1 => Just(0.0025)], 1usize..=3, any::<bool>(),
                    // decimal grids (steps that are not binary fractions), long sweeps included
                    prop_oneof![5 => Just((0i32, 0i32, 0usize)), 1 => (prop_oneof![Just(-100i32), Just(-50), Just(0), Just(30)], prop_oneof![Just(10i32), Just(20), Just(30), Just(70)], 1usize..=4), 2 => (prop_oneof![Just(-100i32), Just(0)], prop_oneof![3 => Just(10i32), 1 => Just(20)], 12usize..=21)]),
                (3u64..=8, 3usize..=20, 0..36usize, 0u64..=1, any::<bool>(), prop_oneof![9 => Just(0u8), 1 => 1u8..=4]),
            )
        })
        .prop_map(|((n, r, _p, bs, staircase), h0, tail, fix, (mut pat, a, use_pat, ikind, ipick, psk8), (min, step, points, extra_half_step, (dmin, dstep, dpoints)), (frame_errors, max_iter, dec, bch, ldpc_file, fault))| {
            let points = if dstep > 0 { dpoints } else { points };
            if !pat.iter().any(|&b| b) {
                let i = idx(a, pat.len());
                pat[i] = true;
            }
            let pattern = if use_pat { Some(pat) } else { None };
            let kept = pattern.as_ref().map_or(n, |v| bs * v.iter().filter(|&&b| b).count());
            let divisors: Vec<usize> = (1..=kept).filter(|d| kept % d == 0).collect();
            let d = divisors[idx(ipick, divisors.len())] as isize;
            let interleaving = match ikind {
                0 => None,
                1 => Some(d),
                _ => Some(-d),
            };
            // an outer-code threshold of 1 needs frames with >= 2 systematic bit errors: only with k >= 4
            let bch = if n - r >= 4 { bch } else { 0 };
            BerCase { h: super::c12::systematic_h(r, n, &h0, &tail, staircase, &fix), min: Fx(min), step: Fx(step), points, extra_half_step, dstep, dmin, frame_errors, max_iter, decoder: super::impls::NAMES[dec].to_string(), bch, ldpc_file, pattern, interleaving, psk8, fault }
        })
        .boxed()
}

fn parse_result_lines(text: &str) -> Vec<Vec<String>> {
    let mut out = Vec::new();
    let mut in_table = false;
    for line in text.lines() {
        if line.starts_with("--------|") {
            in_table = true;
            continue;
        }
        if in_table && line.contains('|') {
            out.push(line.split('|').map(|c| c.trim().to_string()).collect());
        }
    }
    out
}

fn check_ber(c: &BerCase, p: &mut Probe) -> Check {
    let s = Scratch::new();
    let (n, r) = (c.h.cols, c.h.rows);
    let k = n - r;
    let text = own_alist(&c.h, false);
    let (fa, fo, fl) = (s.path("h.alist"), s.path("out.txt"), s.path("out-ldpc.txt"));
    std::fs::write(&fa, &text).map_err(|e| Fail::new(INCONCLUSIVE, format!("scratch write: {e}")))?;
    // decimal strings of hundredths of a dB
    let dec = |h: i32| format!("{}{}.{:02}", if h < 0 { "-" } else { "" }, h.abs() / 100, h.abs() % 100);
    let (smin, smax, sstep) = if c.dstep > 0 {
        let hmax = c.dmin + (c.points as i32 - 1) * c.dstep + if c.extra_half_step { c.dstep / 2 } else { 0 };
        (dec(c.dmin), dec(hmax), dec(c.dstep))
    } else {
        let max = c.min.0 + (c.points as f64 - 1.0) * c.step.0 + if c.extra_half_step { c.step.0 / 2.0 } else { 0.0 };
        (format!("{}", c.min.0), format!("{max}"), format!("{}", c.step.0))
    };
    let (vmin, vmax, vstep): (f64, f64, f64) = (smin.parse().unwrap(), smax.parse().unwrap(), sstep.parse().unwrap());
    // On a decimal grid whose last point is exactly the maximum, whether that point is "requested"
    // is decided by floating-point rounding of (max - min) / step; the exact count is only demanded
    // where the straightforward evaluation in f64 agrees with the exact decimal count.
    let unambiguous = c.extra_half_step || ((vmax - vmin) / vstep).floor() as usize + 1 == c.points;
    let mut args = sv(&["ber", &fa, "--output-file", &fo, "--min-ebn0", &smin, "--max-ebn0", &smax, "--step-ebn0", &sstep, "--frame-errors", &c.frame_errors.to_string(), "--max-iter", &c.max_iter.to_string(), "--decoder", &c.decoder]);
    // negative numbers must be passed as --opt=value
    for i in 0..args.len() {
        if (args[i] == "--min-ebn0" || args[i] == "--max-ebn0") && args[i + 1].starts_with('-') {
            let v = args[i + 1].clone();
            args[i] = format!("{}={v}", args[i]);
            args[i + 1] = String::new();
        }
    }
    args.retain(|a| !a.is_empty());
    if c.bch > 0 {
        args.extend(sv(&["--bch-max-errors", &c.bch.to_string()]));
        if c.ldpc_file {
            args.extend(sv(&["--output-file-ldpc", &fl]));
        }
    }
    if let Some(pt) = &c.pattern {
        args.extend(sv(&["--puncturing", &pt.iter().map(|&b| if b { "1" } else { "0" }).collect::<Vec<_>>().join(",")]));
    }
    if let Some(i) = c.interleaving {
        args.push(format!("--interleaving={i}"));
    }
    if c.psk8 {
        args.extend(sv(&["--modulation", "PSK8"]));
    }
    match c.fault {
        1 => args[1] = s.path("no-such-alist"),
        2 => args.extend(sv(&["--puncturing", "1,x"])),
        3 => {
            let i = args.iter().position(|a| a == "--decoder").unwrap();
            args[i + 1] = "NoSuchDecoder".into();
        }
        4 => {
            // the result file cannot be created (its directory does not exist)
            let i = args.iter().position(|a| a == "--output-file").unwrap();
            args[i + 1] = format!("{}/out.txt", s.path("no-such-directory"));
        }
        _ => {}
    }
    let run = run_cli(&args, Duration::from_secs(30))?;
    if run.code.is_none() && c.fault == 0 {
        return Err(Fail::new(INCONCLUSIVE, format!("{args:?} was killed by a signal (memory cap?); stderr: {}", run.stderr)));
    }
    if c.fault != 0 {
        p.class("ber-fault");
        // with a duplicated --puncturing option clap itself rejects the command line: still an error exit
        expect_failure(&run, &format!("ber with fault {} {args:?}", c.fault))?;
        return Ok(());
    }
    expect_success(&run, &format!("{args:?}"))?;
    let out = std::fs::read_to_string(&fo).map_err(|e| Fail::new("no-output-file", format!("{args:?}: output file missing: {e}")))?;
    let lines = parse_result_lines(&out);
    if unambiguous {
        ensure!(lines.len() == c.points, "ber-lines", "{args:?}: {} result lines in the output file, {} Eb/N0 points requested:\n{out}", lines.len(), c.points);
    } else {
        p.class("decimal-grid-end-point-ambiguous");
        ensure!(lines.len() == c.points || lines.len() + 1 == c.points, "ber-lines", "{args:?}: {} result lines in the output file, {} or {} Eb/N0 points requested:\n{out}", lines.len(), c.points - 1, c.points);
    }
    p.class_if(c.dstep > 0, "decimal-grid");
    p.class_if(vstep < 0.01 && c.points >= 2, "step-finer-than-the-printed-resolution");
    p.class_if(c.dstep > 0 && c.points >= 12, "decimal-grid-long-sweep");
    let kf = k as f64;
    let check_line = |l: &Vec<String>, i: usize, which: &str, min_bits_per_err: u64, stop: bool| -> Check {
        ensure!(l.len() == 11, "ber-columns", "{which}: result line has {} columns: {l:?}", l.len());
        let f = |j: usize| l[j].parse::<f64>().map_err(|_| Fail::new("ber-parse", format!("{which}: cannot parse column {j} of {l:?}")));
        let u = |j: usize| l[j].parse::<u64>().map_err(|_| Fail::new("ber-parse", format!("{which}: cannot parse column {j} of {l:?}")));
        let eb = f(0)?;
        let want_eb = vmin + i as f64 * vstep;
        ensure!((eb - want_eb).abs() < 0.006, "ber-ebn0", "{which}: line {i} is for Eb/N0 {eb}, requested point is {want_eb}");
        let (frames, biterr, frerr, falsedec) = (u(1)?, u(2)?, u(3)?, u(4)?);
        if stop {
            ensure!(frerr == c.frame_errors, "ber-stop", "{which}: {frerr} frame errors reported, --frame-errors {} requested: {l:?}", c.frame_errors);
        }
        ensure!(frames >= frerr && frames >= 1, "ber-frames", "{which}: {frames} frames < {frerr} frame errors");
        ensure!(biterr >= min_bits_per_err * frerr && biterr <= k as u64 * frames, "ber-biterrors", "{which}: {biterr} bit errors for {frerr} frame errors, {frames} frames of k = {k} bits: {l:?}");
        ensure!(falsedec <= frames, "ber-false-decodes", "{which}: {falsedec} false decodes in {frames} frames");
        let (ber, fer) = (f(5)?, f(6)?);
        let wb = biterr as f64 / (kf * frames as f64);
        let wf = frerr as f64 / frames as f64;
        ensure!((ber - wb).abs() <= 0.006 * wb + 1e-300, "ber-ratio", "{which}: BER column {ber:e} but bit errors / (k * frames) = {wb:e}: {l:?}");
        ensure!((fer - wf).abs() <= 0.006 * wf + 1e-300, "fer-ratio", "{which}: FER column {fer:e} but frame errors / frames = {wf:e}: {l:?}");
        Ok(())
    };
    for (i, l) in lines.iter().enumerate() {
        // in the main file the code statistics are the outer code's when a threshold is set
        check_line(l, i, "output file", if c.bch > 0 { c.bch + 1 } else { 1 }, true)?;
    }
    if c.bch > 0 && c.ldpc_file {
        let outl = std::fs::read_to_string(&fl).map_err(|e| Fail::new("no-output-file", format!("{args:?}: LDPC output file missing: {e}")))?;
        let ll = parse_result_lines(&outl);
        ensure!(ll.len() == lines.len(), "ber-lines", "{args:?}: {} result lines in the LDPC-only file, {} in the main file", ll.len(), lines.len());
        for (i, l) in ll.iter().enumerate() {
            check_line(l, i, "LDPC-only file", 1, false)?;
            // same frames, and at least as many LDPC frame errors as outer-code frame errors
            ensure!(l[1] == lines[i][1], "ber-files-disagree", "frame counts differ between the two output files at point {i}");
            let (a, b) = (l[3].parse::<u64>().unwrap_or(0), lines[i][3].parse::<u64>().unwrap_or(0));
            ensure!(a >= b, "ber-files-disagree", "LDPC frame errors {a} < outer-code frame errors {b} at point {i}");
        }
    }
    // details header
    // (the wording of the details header is not part of the property and is not examined)
    let _ = n;
    p.class_if(c.points >= 2, "points>=2");
    p.class_if(c.bch > 0, "bch");
    p.class_if(c.psk8, "8PSK");
    p.inner += c.points as u64;
    if c.points >= 2 || c.bch > 0 {
        p.nontrivial();
    }
    Ok(())
}

/// a sweep whose points run longer than the tool's progress-report interval (500 ms), so that the
/// library sends intermediate reports before the final one of each point: the result lines must
/// still be the final statistics (stop rule: exactly --frame-errors frame errors per line)
fn ber_long_cases(_t: Tier) -> Vec<u8> {
    vec![0, 1]
}

fn check_ber_long(which: &u8, p: &mut Probe) -> Check {
    let s = Scratch::new();
    // [H0 | staircase], 4 x 12
    let mut h = Mat::new(4, 12);
    for (i, row) in [[0usize, 1, 3, 6], [1, 2, 4, 7], [0, 2, 5, 7], [3, 4, 5, 6]].iter().enumerate() {
        for &j in row {
            h.ones.push((i, j));
        }
    }
    h.ones.push((0, 8));
    for j in 1..4 {
        h.ones.push((j, 8 + j));
        h.ones.push((j, 8 + j - 1));
    }
    let (fa, fo) = (s.path("h.alist"), s.path("out.txt"));
    std::fs::write(&fa, own_alist(&h, false)).map_err(|e| Fail::new(INCONCLUSIVE, format!("scratch write: {e}")))?;
    let k = 8u64;
    let mut fe: u64 = 4000;
    for round in 0..8 {
        let mut args = sv(&["ber", &fa, "--output-file", &fo, "--min-ebn0", "3.0", "--max-ebn0", "3.6", "--step-ebn0", "0.5", "--frame-errors", &fe.to_string(), "--max-iter", "10", "--decoder", if *which == 0 { "Phif64" } else { "HLMinstarapproxi8" }]);
        if *which == 1 {
            args.extend(sv(&["--bch-max-errors", "1"]));
        }
        let t0 = Instant::now();
        let run = run_cli(&args, Duration::from_secs(120))?;
        let wall = t0.elapsed();
        if run.code.is_none() {
            return Err(Fail::new(INCONCLUSIVE, format!("{args:?} was killed (watchdog or memory cap); stderr: {}", run.stderr)));
        }
        expect_success(&run, &format!("{args:?}"))?;
        let out = std::fs::read_to_string(&fo).map_err(|e| Fail::new("no-output-file", format!("{args:?}: output file missing: {e}")))?;
        let lines = parse_result_lines(&out);
        ensure!(lines.len() == 2, "ber-lines", "{args:?}: {} result lines, 2 Eb/N0 points requested:\n{out}", lines.len());
        for (i, l) in lines.iter().enumerate() {
            ensure!(l.len() == 11, "ber-columns", "result line has {} columns: {l:?}", l.len());
            let u = |j: usize| l[j].parse::<u64>().map_err(|_| Fail::new("ber-parse", format!("cannot parse column {j} of {l:?}")));
            let f = |j: usize| l[j].parse::<f64>().map_err(|_| Fail::new("ber-parse", format!("cannot parse column {j} of {l:?}")));
            let (frames, biterr, frerr) = (u(1)?, u(2)?, u(3)?);
            ensure!(frerr == fe, "ber-stop", "sweep lasting {:.1} s: line {i} reports {frerr} frame errors, --frame-errors {fe} requested (an intermediate report instead of the final statistics?): {l:?}", wall.as_secs_f64());
            let wb = biterr as f64 / (k as f64 * frames as f64);
            ensure!((f(5)? - wb).abs() <= 0.006 * wb + 1e-300, "ber-ratio", "line {i}: BER column {} but bit errors / (k * frames) = {wb:e}: {l:?}", l[5]);
            let wf = frerr as f64 / frames as f64;
            ensure!((f(6)? - wf).abs() <= 0.006 * wf + 1e-300, "fer-ratio", "line {i}: FER column {} but frame errors / frames = {wf:e}: {l:?}", l[6]);
        }
        p.inner += 2;
        if wall >= Duration::from_millis(1600) {
            p.class("points-longer-than-the-report-interval");
            p.nontrivial();
            return Ok(());
        }
        let _ = round;
        fe *= 4;
    }
    p.class("never-slow-enough");
    Ok(())
}

/// an exit status of 0 says that the matrix was printed: when the standard output cannot be written
/// (a full device), the code-generation subcommands must not report success
fn full_stdout_cases(_t: Tier) -> Vec<u8> {
    vec![0, 1, 2, 3]
}

fn check_full_stdout(which: &u8, p: &mut Probe) -> Check {
    if !std::path::Path::new("/dev/full").exists() {
        p.class("no-dev-full");
        return Ok(());
    }
    let args = match which {
        0 => sv(&["dvbs2", "--rate", "1/2", "--short"]),
        1 => sv(&["ccsds", "--rate", "1/2", "--block-size", "1024"]),
        2 => sv(&["ccsds-c2"]),
        _ => sv(&["peg", "4", "8", "2", "1"]),
    };
    // the same arguments with a working standard output succeed
    let ok = run_cli(&args, Duration::from_secs(120))?;
    expect_success(&ok, &format!("{args:?}"))?;
    let sink = std::fs::OpenOptions::new().write(true).open("/dev/full").map_err(|e| Fail::new(INCONCLUSIVE, format!("cannot open /dev/full: {e}")))?;
    let mut child = Command::new(bin()?).args(&args).stdin(Stdio::null()).stdout(sink).stderr(Stdio::null()).spawn().map_err(|e| Fail::new(INCONCLUSIVE, format!("cannot start the binary: {e}")))?;
    let start = Instant::now();
    let status = loop {
        match child.try_wait() {
            Ok(Some(st)) => break st,
            Ok(None) if start.elapsed() > Duration::from_secs(120) => {
                let _ = child.kill();
                let _ = child.wait();
                return Err(Fail::new(INCONCLUSIVE, format!("{args:?} > /dev/full exceeded the watchdog")));
            }
            Ok(None) => std::thread::sleep(Duration::from_millis(2)),
            Err(e) => return Err(Fail::new(INCONCLUSIVE, format!("wait failed: {e}"))),
        }
    };
    ensure!(status.code() != Some(0), "success-without-output", "{args:?} with the standard output on a full device (/dev/full): exit status 0 although the matrix ({} bytes with a working output) could not be written", ok.stdout.len());
    p.nontrivial();
    Ok(())
}

/// hard decisions only (--max-iter 0) at 4 and 5 dB on a 4 x 12 code with an outer-code threshold of
/// 1: frames with exactly one wrong systematic bit are 7 to 13 times as frequent as frames with two
/// or more, so the LDPC-only statistics (which count them as frame errors) and the outer-code
/// statistics (which do not) differ at every point, with certainty for all practical purposes
/// (probability of no single-error frame while 20 multi-error frames are collected: < 1e-17).
/// The result files are requested alone and together; a descending sweep is requested too.
fn ber_files_cases(_t: Tier) -> Vec<u8> {
    vec![0, 1, 2, 3, 4, 5, 6]
}

fn check_ber_files(which: &u8, p: &mut Probe) -> Check {
    let s = Scratch::new();
    let mut h = Mat::new(4, 12);
    for (i, row) in [[0usize, 1, 3, 6], [1, 2, 4, 7], [0, 2, 5, 7], [3, 4, 5, 6]].iter().enumerate() {
        for &j in row {
            h.ones.push((i, j));
        }
    }
    h.ones.push((0, 8));
    for j in 1..4 {
        h.ones.push((j, 8 + j));
        h.ones.push((j, 8 + j - 1));
    }
    let (fa, fo, fl) = (s.path("h.alist"), s.path("out.txt"), s.path("out-ldpc.txt"));
    std::fs::write(&fa, own_alist(&h, true)).map_err(|e| Fail::new(INCONCLUSIVE, format!("scratch write: {e}")))?;
    let k = 8f64;
    const FE: u64 = 20;
    if *which >= 5 {
        // well-formed arguments with which no frame can be processed (the fault shows only once the
        // simulation runs): a pattern of 5 blocks and an interleaver of 5 columns on 12-bit codewords
        let mut args = sv(&["ber", &fa, "--output-file", &fo, "--min-ebn0", "4.0", "--max-ebn0", "4.0", "--step-ebn0", "1.0", "--frame-errors", "5", "--max-iter", "5", "--decoder", "Phif64"]);
        args.extend(sv(if *which == 5 { &["--puncturing", "1,1,1,1,0"] } else { &["--interleaving", "5"] }));
        let run = run_cli(&args, Duration::from_secs(60))?;
        p.class("frames-cannot-be-processed");
        p.nontrivial();
        if *which == 5 {
            return expect_failure(&run, &format!("{args:?}"));
        }
        // (the interleaver fault is a panic inside the workers, which the unchanged tool reports on stderr
        // as such: only the exit status is judged)
        ensure!(run.code != Some(0), "error-exit-status", "{args:?}: exit status 0 although no frame can be interleaved (12 bits in 5 columns); stdout {:?}", &run.stdout[..run.stdout.len().min(200)]);
        return Ok(());
    }
    // which files are requested; the direction of the sweep
    let (main, ldpc, descending) = match which {
        0 => (false, true, false),
        1 => (true, true, false),
        2 => (true, false, false),
        3 => (false, true, true),
        _ => (true, false, true),
    };
    let mut args = sv(&["ber", &fa, "--frame-errors", &FE.to_string(), "--max-iter", "0", "--decoder", if which % 2 == 0 { "Phif64" } else { "HLAminstari8" }, "--bch-max-errors", "1"]);
    let want_points: Vec<f64> = if descending { vec![5.0, 4.5, 4.0] } else { vec![4.0, 5.0] };
    if descending {
        args.extend(sv(&["--min-ebn0", "5.0", "--max-ebn0", "4.0", "--step-ebn0=-0.5"]));
    } else {
        args.extend(sv(&["--min-ebn0", "4.0", "--max-ebn0", "5.0", "--step-ebn0", "1.0"]));
    }
    if main {
        args.extend(sv(&["--output-file", &fo]));
    }
    if ldpc {
        args.extend(sv(&["--output-file-ldpc", &fl]));
    }
    let run = run_cli(&args, Duration::from_secs(120))?;
    if run.code.is_none() {
        return Err(Fail::new(INCONCLUSIVE, format!("{args:?} was killed (watchdog or memory cap); stderr: {}", run.stderr)));
    }
    if descending && run.code != Some(0) {
        // a tool that refuses a negative step (with a message) does not contradict the property; one
        // that accepts it owes a line for every point of min, min + step, ... down to max
        p.class("descending-sweep-refused");
        return expect_failure(&run, &format!("{args:?}"));
    }
    expect_success(&run, &format!("{args:?}"))?;
    p.class_if(descending, "descending-sweep");
    let read = |path: &str, what: &str| -> Result<Vec<Vec<String>>, Fail> {
        let text = std::fs::read_to_string(path).map_err(|e| Fail::new("no-output-file", format!("{args:?}: {what} missing: {e}")))?;
        let lines = parse_result_lines(&text);
        ensure!(lines.len() == want_points.len(), "ber-lines", "{args:?}: {} result lines in the {what}, {} Eb/N0 points requested ({want_points:?}):\n{text}", lines.len(), want_points.len());
        for (i, l) in lines.iter().enumerate() {
            ensure!(l.len() == 11, "ber-columns", "{what}: result line has {} columns: {l:?}", l.len());
            let f = |j: usize| l[j].parse::<f64>().map_err(|_| Fail::new("ber-parse", format!("{what}: cannot parse column {j} of {l:?}")));
            ensure!((f(0)? - want_points[i]).abs() < 0.006, "ber-ebn0", "{what}: line {i} is for Eb/N0 {}, requested point is {}", l[0], want_points[i]);
            let (frames, biterr, frerr) = (f(1)?, f(2)?, f(3)?);
            ensure!(frames >= frerr && frerr >= 1.0 && biterr >= frerr && biterr <= k * frames, "ber-counts", "{what}: inconsistent counts in {l:?}");
            let (wb, wf) = (biterr / (k * frames), frerr / frames);
            ensure!((f(5)? - wb).abs() <= 0.006 * wb && (f(6)? - wf).abs() <= 0.006 * wf, "ber-ratio", "{what}: BER / FER columns are not the ratios of the counts in {l:?}");
        }
        Ok(lines)
    };
    let num = |l: &Vec<String>, j: usize| l[j].parse::<u64>().unwrap_or(0);
    let lm = if main { Some(read(&fo, "output file")?) } else { None };
    let ll = if ldpc { Some(read(&fl, "LDPC-only file")?) } else { None };
    if let Some(lm) = &lm {
        for l in lm {
            ensure!(num(l, 3) == FE && num(l, 2) >= 2 * FE, "ber-stop", "output file (outer-code statistics, threshold 1): {} frame errors and {} bit errors reported; the point stops at exactly {FE} frame errors of at least 2 bit errors each: {l:?}", num(l, 3), num(l, 2));
        }
    }
    if let Some(ll) = &ll {
        for l in ll {
            // inner-code statistics: the single-error frames are frame errors here
            ensure!(num(l, 3) > FE && num(l, 2) < 2 * num(l, 3), "ldpc-file-not-ldpc-statistics", "LDPC-only file{}: {} frame errors with {} bit errors; with hard decisions at this Eb/N0 most wrong frames have exactly one wrong bit, which the outer code corrects and the inner-code statistics count: these are the outer code's numbers: {l:?}", if main { "" } else { " (requested without --output-file)" }, num(l, 3), num(l, 2));
        }
    }
    if let (Some(lm), Some(ll)) = (&lm, &ll) {
        for (a, b) in lm.iter().zip(ll) {
            ensure!(a[1] == b[1], "ber-files-disagree", "frame counts differ between the two output files: {a:?} vs {b:?}");
        }
    }
    p.inner += want_points.len() as u64;
    p.nontrivial();
    Ok(())
}

pub fn property() -> Property {
    Property {
        id: "C20",
        subs: vec![
            Box::new(EnumSub {
                name: "code-generation",
                rule: "exhaustive: dvbs2 for all 21 (rate, short) pairs, ccsds for the 9 (rate, block size) pairs (24576 x 40960 only in thorough), ccsds-c2: stdout equals byte for byte the alist of the matrix the library constructs; invalid rates / block sizes / subcommand: non-zero status, message on stderr, no 'panicked at', nothing on stdout; --girth prints 6 for DVB-S2 1/2 and CCSDS 1/2 k=1024 as documented, and for every one of the 30 codes the girth of the matrix the library builds (own layered cycle search); ber --help offers the 36 decoder names",
                cases: gen_cases,
                check: check_gen,
                exhaustive: true,
            }),
            Box::new(Sub {
                name: "constructions",
                rule: "generated peg (rows 1..=8, cols 1..=14, wc 1..=4, any seed, --girth) and mackay-neal (rows 2..=10, cols 2..=20, tight and slack wr, both policies, min girth, backtracking, with and without --search over 1..=40 seeds) invocations: stdout equals the alist of the library result for the same arguments (for --search: for the seed printed on stderr, which must lie in range), failures give a non-zero status, 'no solution' only if the sequential oracle finds every seed failing; non-trivial = a matrix was produced",
                cases: |t| t.pick(1_500, 40_000),
                strategy: con_strategy,
                check: check_con,
                health: &[],
            }),
            Box::new(Sub {
                name: "systematic",
                rule: "generated matrix files (C09 generator incl. rank-deficient, plus shapes with more rows than columns; one file in five a named pipe fed in two pieces): stdout equals the alist of parity_to_systematic, or non-zero status + message and no panic when the library returns an error; non-trivial = converted",
                cases: |t| t.pick(1_500, 40_000),
                strategy: sys_strategy,
                check: check_sys,
                health: &[("converted", 0.30), ("rejected", 0.15)],
            }),
            Box::new(Sub {
                name: "encode",
                rule: "generated systematic H (k >= 1, n = pattern length x block size up to 66, one case in 13 up to 440; alist file in the padded or the unpadded form, for one valid case in five a named pipe fed in two pieces), optional puncturing pattern dividing n, input file of 0..=5 (one case in 13: 700..=3000, i.e. several I/O buffers) complete words plus 0..k-1 trailing bytes: the output file is exactly the concatenation of the (punctured) codewords of the library encoder, nothing more; bad pattern, missing input, missing alist, pattern not dividing n: non-zero status, no panic; non-trivial = at least one word",
                cases: |t| t.pick(2_000, 40_000),
                strategy: enc_strategy,
                check: check_enc,
                health: &[("punctured", 0.15), ("encode-fault", 0.10)],
            }),
            Box::new(Sub {
                name: "ber",
                rule: "tiny systematic H, Eb/N0 grid with binary-exact min/step and 1..=3 points (one case in seven: a step of 0.004 or 0.0025 dB, finer than the two decimals of the result lines), or a decimal grid (step 0.1/0.2/0.3/0.7 dB, 1..=4 or 12..=21 points, passed as decimal strings; the exact number of points is demanded whenever max lies half a step beyond the last point or the f64 evaluation of floor((max-min)/step)+1 agrees with the exact decimal count), optionally max = last point + step/2, --frame-errors 3..=8, any of the 36 decoders, optional outer-code threshold 1 with LDPC-only file, optional puncturing / interleaving / 8PSK: exit 0, one result line per requested point in each output file with frame errors = requested (stop rule), bit errors within [min per frame error x frame errors, k x frames], false decodes <= frames, BER and FER equal to the ratios at the printed precision; missing alist, malformed pattern, unknown decoder, result file in a directory that does not exist: non-zero status, no panic; non-trivial = >= 2 points or outer code",
                cases: |t| t.pick(400, 8_000),
                strategy: ber_strategy,
                check: check_ber,
                health: &[("points>=2", 0.40)],
            }),
            Box::new(EnumSub {
                name: "ber-long-points",
                rule: "two fixed sweeps (Phif64; HLMinstarapproxi8 with an outer-code threshold) of two Eb/N0 points on a 4 x 12 code, --frame-errors quadrupled from 4000 until the whole sweep takes >= 1.6 s of wall time, i.e. each point outlasts the tool's 500 ms progress interval and intermediate reports precede the final one: still one line per point, frame errors exactly as requested, BER/FER equal to the ratios. Time only decides when to stop escalating, never the verdict",
                cases: ber_long_cases,
                check: check_ber_long,
                exhaustive: false,
            }),
            Box::new(EnumSub {
                name: "output-cannot-be-written",
                rule: "dvbs2, ccsds, ccsds-c2 and peg with valid arguments and the standard output on /dev/full (every write fails): the exit status is not 0 (how the failure is reported is not judged; the unchanged tool panics in println!)",
                cases: full_stdout_cases,
                check: check_full_stdout,
                exhaustive: false,
            }),
            Box::new(EnumSub {
                name: "ber-result-files",
                rule: "five fixed invocations on a 4 x 12 code with --max-iter 0 (hard decisions), --bch-max-errors 1, --frame-errors 20, at 4 and 5 dB, where frames with exactly one wrong systematic bit are 7-13 times as frequent as frames with more: (LDPC-only file alone, both files, main file alone) ascending, and (LDPC-only file alone, main file alone) as a descending sweep 5.0, 4.5, 4.0 dB with --step-ebn0=-0.5. One line per point in each requested file; main file: exactly 20 frame errors of >= 2 bit errors each; LDPC-only file: more than 20 frame errors and fewer than 2 bit errors per frame error (probability of a correct tool failing this < 1e-17 per line), whether or not the main file is requested; equal frame counts in both files; a descending sweep may instead be refused with a message and a non-zero status. Two further invocations with well-formed arguments under which no frame can be processed (--puncturing 1,1,1,1,0 or --interleaving 5 on 12-bit codewords): non-zero exit status (for the pattern also a message and no panic)",
                cases: ber_files_cases,
                check: check_ber_files,
                exhaustive: false,
            }),
        ],
        assumptions: vec![
            "the binary is built from the working tree with the repository's own release profile by ./check (LDPC_TOOLBOX_BIN)".into(),
            "encode: matrices with k = 0 are excluded (there is no 'complete input word' of zero bytes)".into(),
            "what the library computes is obtained in-process from the same tree; the library functions themselves are judged by C06-C09, C16".into(),
        ],
    }
}
