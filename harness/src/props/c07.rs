//! C07 — CCSDS AR4JA and C2 parity-check matrices conform to CCSDS 131.0-B.

use crate::common::*;
use crate::engine::*;
use crate::ensure;
use ldpc_toolbox::codes::ccsds::{AR4JACode, AR4JAInfoSize, AR4JARate, C2Code};
use ldpc_toolbox::encoder::Encoder;
use ldpc_toolbox::gf2::GF2;
use ldpc_toolbox::sparse::SparseMatrix;
use num_traits::{One, Zero};
use serde::{Deserialize, Serialize};
use std::collections::HashSet;

/// (name, rate index, k, M) — Blue Book table of sub-matrix sizes
pub const CODES: [(&str, usize, usize, usize); 9] = [
    ("R1_2-K1024", 0, 1024, 512),
    ("R2_3-K1024", 1, 1024, 256),
    ("R4_5-K1024", 2, 1024, 128),
    ("R1_2-K4096", 0, 4096, 2048),
    ("R2_3-K4096", 1, 4096, 1024),
    ("R4_5-K4096", 2, 4096, 512),
    ("R1_2-K16384", 0, 16384, 8192),
    ("R2_3-K16384", 1, 16384, 4096),
    ("R4_5-K16384", 2, 16384, 2048),
];

fn library_code(rate: usize, k: usize) -> AR4JACode {
    let r = [AR4JARate::R1_2, AR4JARate::R2_3, AR4JARate::R4_5][rate];
    let s = match k {
        1024 => AR4JAInfoSize::K1024,
        4096 => AR4JAInfoSize::K4096,
        _ => AR4JAInfoSize::K16384,
    };
    AR4JACode::new(r, s)
}

pub struct Tables {
    theta: Vec<usize>,
    phi: Vec<Vec<usize>>,
}

fn tables() -> Result<Tables, String> {
    let d = golden_dir().join("ccsds");
    let theta = read_table(&d.join("theta.tbl"))?.into_iter().next().ok_or("theta.tbl empty")?;
    let phi = read_table(&d.join("phi.tbl"))?;
    if theta.len() != 26 || phi.len() != 104 || phi.iter().any(|r| r.len() != 7) {
        return Err("theta/phi tables have the wrong shape".into());
    }
    Ok(Tables { theta, phi })
}

/// own expansion from the Blue Book formulas; returns sorted column lists
pub fn expand(rate: usize, m: usize, t: &Tables) -> Vec<Vec<usize>> {
    let mi = m.trailing_zeros() as usize - 7;
    let pi = |k: usize, i: usize| -> usize {
        let j = 4 * i / m;
        let theta = t.theta[k - 1];
        let phi = t.phi[j * 26 + (k - 1)][mi];
        m / 4 * ((theta + j) % 4) + (phi + i) % (m / 4)
    };
    let extra = [0usize, 2, 6][rate];
    let ncols = (extra + 5) * m;
    let mut ones: HashSet<u64> = HashSet::new();
    let mut toggle = |r: usize, c: usize| {
        let key = ((r as u64) << 32) | c as u64;
        if !ones.remove(&key) {
            ones.insert(key);
        }
    };
    // block (rb, cb) gets the sum (mod 2) of the listed terms; 0 = identity, k = permutation Pi_k
    let mut block = |rb: usize, cb: usize, terms: &[usize]| {
        for &k in terms {
            for i in 0..m {
                let c = if k == 0 { i } else { pi(k, i) };
                toggle(rb * m + i, cb * m + c);
            }
        }
    };
    let b = extra; // first block column of H_1/2
    block(0, b + 2, &[0]);
    block(0, b + 4, &[0, 1]);
    block(1, b, &[0]);
    block(1, b + 1, &[0]);
    block(1, b + 3, &[0]);
    block(1, b + 4, &[2, 3, 4]);
    block(2, b, &[0]);
    block(2, b + 1, &[5, 6]);
    block(2, b + 3, &[7, 8]);
    block(2, b + 4, &[0]);
    if rate >= 1 {
        let a = extra - 2;
        block(1, a, &[9, 10, 11]);
        block(2, a, &[0]);
        block(1, a + 1, &[0]);
        block(2, a + 1, &[12, 13, 14]);
    }
    if rate == 2 {
        block(1, 0, &[21, 22, 23]);
        block(2, 0, &[0]);
        block(1, 1, &[0]);
        block(2, 1, &[24, 25, 26]);
        block(1, 2, &[15, 16, 17]);
        block(2, 2, &[0]);
        block(1, 3, &[0]);
        block(2, 3, &[18, 19, 20]);
    }
    let mut cols: Vec<Vec<usize>> = vec![Vec::new(); ncols];
    for key in ones {
        cols[(key & 0xffff_ffff) as usize].push((key >> 32) as usize);
    }
    for c in cols.iter_mut() {
        c.sort_unstable();
    }
    cols
}

/// forward elimination on bit rows; returns the rank
pub fn rank_of_columns(cols: &[Vec<usize>], nrows: usize, from: usize, to: usize) -> usize {
    let w = (to - from).div_ceil(64);
    let mut rows: Vec<Vec<u64>> = vec![vec![0u64; w]; nrows];
    for (j, col) in cols[from..to].iter().enumerate() {
        for &r in col {
            rows[r][j / 64] |= 1 << (j % 64);
        }
    }
    let mut rank = 0;
    for c in 0..(to - from) {
        if rank == nrows {
            break;
        }
        let (wi, bit) = (c / 64, 1u64 << (c % 64));
        let Some(p) = (rank..nrows).find(|&i| rows[i][wi] & bit != 0) else {
            continue;
        };
        rows.swap(rank, p);
        let (head, tail) = rows.split_at_mut(rank + 1);
        let pivot = &head[rank];
        for row in tail.iter_mut() {
            if row[wi] & bit != 0 {
                for x in wi..w {
                    row[x] ^= pivot[x];
                }
            }
        }
        rank += 1;
    }
    rank
}

#[derive(Debug, Clone, Serialize, Deserialize)]
pub struct CodeCase {
    pub code: String,
    pub rank: bool,
    pub encoder_messages: usize,
    pub seed: u64,
}

fn cases(t: Tier) -> Vec<CodeCase> {
    let seed = GLOBAL_SEED.load(std::sync::atomic::Ordering::Relaxed);
    let mut v = Vec::new();
    for c in CODES.iter() {
        let (k, rate) = (c.2, c.1);
        let rank = t == Tier::Thorough || k <= 4096;
        let enc = match t {
            Tier::Quick => k == 1024,
            Tier::Thorough => k <= 4096 || rate == 2,
        };
        v.push(CodeCase { code: c.0.to_string(), rank, encoder_messages: if enc { 8 } else { 0 }, seed });
    }
    v.push(CodeCase { code: "C2".into(), rank: true, encoder_messages: 0, seed });
    // heavy cases first so that the thread pool balances
    v.sort_by_key(|c| std::cmp::Reverse(CODES.iter().find(|x| x.0 == c.code).map_or(0, |x| x.3 * (if c.encoder_messages > 0 { 50 } else { 1 }))));
    v
}

fn shift_invariant(cols: &[Vec<usize>], sub: usize) -> bool {
    // (i, j) -> (block(i) + (off(i)+1) mod sub, block(j) + (off(j)+1) mod sub) maps the matrix onto itself
    let sh = |x: usize| (x / sub) * sub + (x % sub + 1) % sub;
    for (j, col) in cols.iter().enumerate() {
        let mut img: Vec<usize> = col.iter().map(|&r| sh(r)).collect();
        img.sort_unstable();
        if cols[sh(j)] != img {
            return false;
        }
    }
    true
}

fn encode_and_check(h: &SparseMatrix, name: &str, k: usize, n: usize, messages: usize, seed: u64, p: &mut Probe) -> Check {
    // the thread has just been refused an encoder: the same matrix with its last column emptied is
    // singular in the last columns (the outcome of this call is not judged here)
    {
        let mut bad = h.clone();
        bad.clear_col(n - 1);
        let _ = guarded(|| Encoder::from_h(&bad).is_ok());
    }
    let enc = guarded(|| Encoder::from_h(h)).map_err(|e| Fail::new("panic", format!("{name}: Encoder::from_h panicked: {e}")))?;
    let enc = enc.map_err(|e| Fail::new("encoder-rejects", format!("{name}: Encoder::from_h failed: {e}")))?;
    let rows = sorted_rows(h);
    let mut sd = splitmix(seed ^ hash_str(name));
    for t in 0..messages {
        let msg: Vec<u8> = (0..k)
            .map(|_| {
                sd = splitmix(sd);
                if t == 0 { 1 } else if t == 1 { 0 } else { (sd & 1) as u8 }
            })
            .collect();
        // the message reaches the encoder as an owned array or as one of five kinds of view (reversed,
        // strided, offset), message t in layout t mod 6
        let gmsg: Vec<GF2> = msg.iter().map(|&b| if b == 1 { GF2::one() } else { GF2::zero() }).collect();
        let lay = (t % LAYOUTS as usize) as u8;
        let cw = guarded(|| with_layout(&gmsg, GF2::one(), lay, |v| enc.encode(&v))).map_err(|e| Fail::new("panic", format!("{name}: encode panicked (message layout {}): {e}", layout_name(lay))))?;
        let cw: Vec<u8> = cw.iter().map(|x| u8::from(x.is_one())).collect();
        ensure!(cw.len() == n && cw[..k] == msg[..], "not-systematic", "{name}: codeword does not start with the message (message layout {})", layout_name(lay));
        ensure!(syndrome_rows_ok(&rows, &cw), "not-codeword", "{name}: encoded word violates a parity check (message layout {})", layout_name(lay));
        p.inner += 1;
    }
    Ok(())
}

fn check_code(case: &CodeCase, p: &mut Probe) -> Check {
    p.nontrivial();
    if case.code == "C2" {
        return check_c2(p);
    }
    let name = case.code.as_str();
    let c = CODES.iter().find(|c| c.0 == name).ok_or_else(|| Fail::new("harness", format!("unknown code {name}")))?;
    let (rate, k, m) = (c.1, c.2, c.3);
    let h = guarded(|| library_code(rate, k).h()).map_err(|e| Fail::new("panic", format!("{name}: h() panicked: {e}")))?;
    let extra = [0usize, 2, 6][rate];
    let n = k + 3 * m;
    ensure!((extra + 5) * m == n, "harness", "{name}: inconsistent harness table");
    ensure!(h.num_rows() == 3 * m && h.num_cols() == n, "dimensions", "{name}: matrix is {} x {}, expected 3M x (k+3M) = {} x {n} with M = {m}", h.num_rows(), h.num_cols(), 3 * m);
    let cols = sorted_columns(&h);
    // protograph block-column degrees
    let mut degs = vec![4usize; extra];
    degs.extend([2, 3, 1, 3, 6]);
    for (b, &d) in degs.iter().enumerate() {
        for j in b * m..(b + 1) * m {
            ensure!(cols[j].len() == d, "block-degree", "{name}: column {j} (block column {b}) has degree {}, the protograph says {d}", cols[j].len());
        }
    }
    // M/4-circulant sub-blocks
    ensure!(shift_invariant(&cols, m / 4), "circulant", "{name}: the matrix is not invariant under the cyclic shift inside every M/4 sub-block");
    // pinned reference
    let t = tables().map_err(|e| Fail::new("golden-missing", e))?;
    let own = expand(rate, m, &t);
    ensure!(own.len() == n, "reference", "{name}: reference has {} columns", own.len());
    for j in 0..n {
        ensure!(own[j] == cols[j], "reference", "{name}: column {j} = {:?} differs from the own expansion of the pinned tables {:?}", cols[j], own[j]);
    }
    let digests = read_digests(&golden_dir().join("ccsds").join("DIGESTS"));
    let want = digests.get(name).ok_or_else(|| Fail::new("golden-missing", format!("{name}: no pinned digest")))?;
    let got = columns_digest(3 * m, &cols);
    ensure!(&got == want, "reference-digest", "{name}: edge-list digest {got} differs from the pinned {want}");
    // invertible last 3M columns (=> full row rank)
    if case.rank {
        let rk = rank_of_columns(&cols, 3 * m, n - 3 * m, n);
        ensure!(rk == 3 * m, "tail-singular", "{name}: the last 3M columns have rank {rk} < {}", 3 * m);
        p.class("own-rank-computed");
    }
    if name == "R1_2-K1024" {
        let g = bounded_girth(&adjacency(&h), 6);
        ensure!(g == Some(6), "girth", "{name}: own girth search gives {g:?}, documented girth is 6");
    }
    if case.encoder_messages > 0 {
        encode_and_check(&h, name, k, n, case.encoder_messages, case.seed, p)?;
        p.class("encoder-exercised");
    }
    Ok(())
}

fn c2_expand(table: &[Vec<usize>]) -> Vec<Vec<usize>> {
    let mut cols: Vec<Vec<usize>> = vec![Vec::new(); 16 * 511];
    for rb in 0..2 {
        for cb in 0..16 {
            for &off in &table[rb * 16 + cb] {
                for j in 0..511 {
                    cols[cb * 511 + (j + off) % 511].push(rb * 511 + j);
                }
            }
        }
    }
    for c in cols.iter_mut() {
        c.sort_unstable();
    }
    cols
}

fn check_c2(p: &mut Probe) -> Check {
    let h = guarded(|| C2Code::new().h()).map_err(|e| Fail::new("panic", format!("C2: h() panicked: {e}")))?;
    ensure!(h.num_rows() == 1022 && h.num_cols() == 8176, "dimensions", "C2: matrix is {} x {}", h.num_rows(), h.num_cols());
    let cols = sorted_columns(&h);
    let rows = sorted_rows(&h);
    for (r, l) in rows.iter().enumerate() {
        ensure!(l.len() == 32, "row-weight", "C2: row {r} has weight {}", l.len());
    }
    for (c, l) in cols.iter().enumerate() {
        ensure!(l.len() == 4, "col-weight", "C2: column {c} has weight {}", l.len());
    }
    // every 511 x 511 block is a circulant of weight 2
    for rb in 0..2 {
        for cb in 0..16 {
            let first: Vec<usize> = rows[rb * 511].iter().filter(|&&c| c / 511 == cb).map(|c| c % 511).collect();
            ensure!(first.len() == 2, "block-weight", "C2: block ({rb},{cb}) has row weight {}", first.len());
            for j in 0..511 {
                let mut want: Vec<usize> = first.iter().map(|o| cb * 511 + (o + j) % 511).collect();
                want.sort_unstable();
                let got: Vec<usize> = rows[rb * 511 + j].iter().copied().filter(|&c| c / 511 == cb).collect();
                ensure!(got == want, "circulant", "C2: block ({rb},{cb}) is not a circulant at row {j}");
            }
        }
    }
    let rk = rank_of_columns(&cols, 1022, 0, 8176);
    ensure!(rk == 1020, "rank", "C2: rank {rk}, the (8176, 7156) code needs exactly 1020");
    let g = bounded_girth(&adjacency(&h), 6);
    ensure!(g == Some(6), "girth", "C2: own girth search gives {g:?}, expected 6");
    let table = read_table(&golden_dir().join("ccsds").join("c2.tbl")).map_err(|e| Fail::new("golden-missing", e))?;
    ensure!(table.len() == 32, "golden-bad", "c2.tbl has {} rows", table.len());
    let own = c2_expand(&table);
    ensure!(own == cols, "reference", "C2: matrix differs from the own expansion of the pinned circulant table");
    let digests = read_digests(&golden_dir().join("ccsds").join("DIGESTS"));
    let want = digests.get("C2").ok_or_else(|| Fail::new("golden-missing", "C2: no pinned digest".to_string()))?;
    let got = columns_digest(1022, &cols);
    ensure!(&got == want, "reference-digest", "C2: edge-list digest {got} differs from the pinned {want}");
    p.inner += 8176;
    Ok(())
}

pub fn pin_digests() -> Result<(), String> {
    let t = tables()?;
    let mut out = String::new();
    for c in CODES.iter() {
        let cols = expand(c.1, c.3, &t);
        out.push_str(&format!("{} {}\n", c.0, columns_digest(3 * c.3, &cols)));
    }
    let table = read_table(&golden_dir().join("ccsds").join("c2.tbl"))?;
    out.push_str(&format!("C2 {}\n", columns_digest(1022, &c2_expand(&table))));
    std::fs::write(golden_dir().join("ccsds").join("DIGESTS"), out).map_err(|e| e.to_string())
}

/// many threads building AR4JA codes of different M at the same time and again and again, each
/// thread in its own order: every matrix built must have the pinned digest (process-wide caches,
/// if any, must not mix codes up)
fn concurrent_cases(t: Tier) -> Vec<CodeCase> {
    (0..t.pick(16u64, 64)).map(|w| CodeCase { code: "concurrent".into(), rank: false, encoder_messages: 0, seed: w }).collect()
}

/// one case per AR4JA code with k <= 4096: the matrix is built inside a rayon pool of a single thread
/// (a one-CPU container, RAYON_NUM_THREADS=1): same pinned digest, and the call returns
fn single_thread_cases(_t: Tier) -> Vec<CodeCase> {
    CODES.iter().filter(|c| c.2 <= 4096).flat_map(|c| [1u64, 3].map(|t| CodeCase { code: c.0.to_string(), rank: false, encoder_messages: 0, seed: t })).collect()
}

fn check_single_thread(case: &CodeCase, p: &mut Probe) -> Check {
    let digests = read_digests(&golden_dir().join("ccsds").join("DIGESTS"));
    let c = CODES.iter().find(|c| c.0 == case.code).ok_or_else(|| Fail::new("harness", format!("unknown code {}", case.code)))?;
    let (name, rate, k, m) = (c.0, c.1, c.2, c.3);
    // pools of one thread and of three (a worker count that divides no power of two)
    let threads = if case.seed == 3 { 3 } else { 1 };
    let pool = rayon::ThreadPoolBuilder::new().num_threads(threads).build().map_err(|e| Fail::new(INCONCLUSIVE, format!("cannot build a rayon pool: {e}")))?;
    let h = guarded(|| pool.install(|| library_code(rate, k).h())).map_err(|e| Fail::new("panic", format!("{name}: h() panicked inside a rayon pool of {threads} thread(s): {e}")))?;
    let got = columns_digest(3 * m, &sorted_columns(&h));
    let want = digests.get(name).ok_or_else(|| Fail::new("golden-missing", format!("{name}: no pinned digest")))?;
    ensure!(&got == want, "single-thread-build", "{name}: the matrix built inside a rayon pool of {threads} thread(s) differs from the pinned reference (digest {got})");
    p.inner += 1;
    p.nontrivial();
    Ok(())
}

fn check_concurrent(case: &CodeCase, p: &mut Probe) -> Check {
    let digests = read_digests(&golden_dir().join("ccsds").join("DIGESTS"));
    // the six codes with k <= 4096 (two of them share M = 512)
    let small: Vec<_> = CODES.iter().filter(|c| c.2 <= 4096).collect();
    let mut s = splitmix(case.seed ^ 0xc0de);
    for round in 0..40 {
        s = splitmix(s);
        let c = small[(s % small.len() as u64) as usize];
        let (name, rate, k, m) = (c.0, c.1, c.2, c.3);
        let h = guarded(|| library_code(rate, k).h()).map_err(|e| Fail::new("panic", format!("{name}: h() panicked while other threads were building other codes (round {round}): {e}")))?;
        let got = columns_digest(3 * m, &sorted_columns(&h));
        let want = digests.get(name).ok_or_else(|| Fail::new("golden-missing", format!("{name}: no pinned digest")))?;
        ensure!(&got == want, "concurrent-build", "{name}: the matrix built in round {round}, while other threads were building other codes, differs from the pinned reference (digest {got})");
        p.inner += 1;
    }
    p.nontrivial();
    Ok(())
}

pub fn property() -> Property {
    Property {
        id: "C07",
        subs: vec![Box::new(EnumSub {
            name: "codes",
            rule: "exhaustive over the 9 AR4JA (rate, k) pairs and C2. AR4JA: dimensions 3M x (k+3M) with M from the harness's copy of the Blue Book table; every column of a block column has the protograph degree ([4]*extra + [2,3,1,3,6], punctured block 6); invariance under the cyclic shift inside every M/4 sub-block; column-by-column equality with an own expansion (pi_k formula, block layouts of H_1/2, H_2/3, H_4/5, sums mod 2) of the pinned theta/phi tables and digest equality; own bitset elimination: last 3M columns invertible (quick: k <= 4096; thorough: all nine); Encoder::from_h (on a thread that has just been refused an encoder for the same matrix with its last column emptied) + 8 messages (all-ones, all-zero, pseudo-random; handed over in six memory layouts in turn) with own H c = 0 (quick: k = 1024; thorough: also k = 4096 and rate 4/5 k = 16384; for the two largest matrices invertibility is established by the own elimination only); own girth 6 for rate 1/2 k = 1024. C2: 1022 x 8176, row weight 32, column weight 4, every 511 x 511 block a circulant of weight 2, own rank exactly 1020, own girth 6, equality with the expansion of the pinned circulant table",
            cases,
            check: check_code,
            exhaustive: true,
        }),
        Box::new(EnumSub {
            name: "concurrent-builds",
            rule: "16 (thorough 64) workers, each building 40 times one of the six AR4JA codes with k <= 4096 in its own pseudo-random order, all at the same time: every matrix built must have the pinned digest, no build may panic; inner = matrices built",
            cases: concurrent_cases,
            check: check_concurrent,
            exhaustive: false,
        }),
        Box::new(EnumSub {
            name: "single-thread-pool",
            rule: "the six AR4JA codes with k <= 4096, each built inside a rayon pool of one thread (a one-CPU container) and of three threads (a worker count that is not a power of two): the call returns (a call that has not returned after 60 s is reported) and the matrix has the pinned digest",
            cases: single_thread_cases,
            check: check_single_thread,
            exhaustive: false,
        })],
        assumptions: vec![
            "M values, block layouts and protograph degrees are the harness's own transcription of CCSDS 131.0-B; theta/phi/circulant table entries are pinned from the tree at pin time (regression oracle for the individual entries)".into(),
            "Encoder::from_h on the rate-1/2 and rate-2/3 k = 16384 matrices is not executed (dense GF(2) elimination over > 350 MB inside the library); their tail invertibility is established by the own elimination in the thorough tier".into(),
        ],
    }
}
