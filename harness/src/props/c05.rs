//! C05 — variable updates are exact saturating sums; 8-bit arithmetic never
//! overflows; layered primitive == flooding check rule on extrinsics + add.

use crate::common::*;
use crate::engine::*;
use crate::ensure;
use ldpc_toolbox::decoder::arithmetic::*;
use ldpc_toolbox::decoder::{Message, SentMessage};
use proptest::prelude::*;
use serde::{Deserialize, Serialize};

#[macro_export]
macro_rules! with_i8_types {
    ($m:ident) => {
        $m!(
            Minstarapproxi8,
            Minstarapproxi8Jones,
            Minstarapproxi8PartialHardLimit,
            Minstarapproxi8JonesPartialHardLimit,
            Minstarapproxi8Deg1Clip,
            Minstarapproxi8JonesDeg1Clip,
            Minstarapproxi8PartialHardLimitDeg1Clip,
            Minstarapproxi8JonesPartialHardLimitDeg1Clip,
            Aminstari8,
            Aminstari8Jones,
            Aminstari8PartialHardLimit,
            Aminstari8JonesPartialHardLimit,
            Aminstari8Deg1Clip,
            Aminstari8JonesDeg1Clip,
            Aminstari8PartialHardLimitDeg1Clip,
            Aminstari8JonesPartialHardLimitDeg1Clip
        )
    };
}

#[macro_export]
macro_rules! with_f64_types {
    ($m:ident) => {
        $m!(Phif64, Tanhf64, Minstarapproxf64, Aminstarf64)
    };
}
#[macro_export]
macro_rules! with_f32_types {
    ($m:ident) => {
        $m!(Phif32, Tanhf32, Minstarapproxf32, Aminstarf32)
    };
}

pub trait I8Arith: DecoderArithmetic<Llr = i8, CheckMessage = i8, VarMessage = i8, VarLlr = i16> {}
impl<T> I8Arith for T where T: DecoderArithmetic<Llr = i8, CheckMessage = i8, VarMessage = i8, VarLlr = i16> {}

fn clip(x: i64) -> i64 {
    x.clamp(-127, 127)
}

// ---------------------------------------------------------------------------
// quantiser

fn check_quantizer_value<A: I8Arith>(name: &str, a: &A, llr: f64, p: &mut Probe) -> Check {
    let q = guarded(|| a.input_llr_quantize(llr)).map_err(|e| Fail::new("quantizer-panic", format!("{name}: input_llr_quantize({llr:e}) panicked: {e}")))?;
    ensure!(q != -128, "minus128", "{name}: input_llr_quantize({llr:e}) = -128");
    if llr.is_nan() {
        return Ok(());
    }
    let t = 8.0 * llr; // exact (power of two) unless it overflows to +-inf
    let want: Vec<i64> = if t >= 127.0 {
        p.class("quantizer-saturated");
        vec![127]
    } else if t <= -127.0 {
        p.class("quantizer-saturated");
        vec![-127]
    } else {
        let lo = t.floor();
        let frac = t - lo;
        if frac < 0.5 {
            vec![lo as i64]
        } else if frac > 0.5 {
            vec![lo as i64 + 1]
        } else {
            p.class("quantizer-tie");
            vec![lo as i64, lo as i64 + 1]
        }
    };
    ensure!(want.contains(&(q as i64)), "quantizer", "{name}: input_llr_quantize({llr:e}) = {q}, round(8*llr) saturated to +-127 is {want:?}");
    Ok(())
}

fn llr_any_bits() -> impl Strategy<Value = f64> {
    prop_oneof![
        4 => any::<u64>().prop_map(f64::from_bits),
        1 => Just(f64::NAN),
        1 => Just(f64::INFINITY),
        1 => Just(f64::NEG_INFINITY),
        1 => Just(0.0),
        1 => Just(-0.0),
        3 => (prop_oneof![3 => -260i32..=260, 1 => -2100i32..=2100], 0..3u8).prop_map(|(k, w)| {
            let x = k as f64 / 16.0;
            match w {
                0 => x,
                1 => f64::from_bits(x.to_bits().wrapping_add(1)),
                _ => if x == 0.0 { -5e-324 } else { f64::from_bits(x.to_bits() - 1) },
            }
        }),
        2 => -20.0f64..20.0,
        1 => (127.0f64 / 8.0 - 1e-9)..(127.0 / 8.0 + 1e-9),
        1 => (-127.0f64 / 8.0 - 1e-9)..(-127.0 / 8.0 + 1e-9),
    ]
}

fn check_quantizer(llr: &Fx, p: &mut Probe) -> Check {
    macro_rules! all {
        ($($t:ident),*) => {
            $( check_quantizer_value(stringify!($t), &super::impls::mk(<$t>::new, llr.0.to_bits() & 1 == 1), llr.0, p)?; p.inner += 1; )*
        };
    }
    crate::with_i8_types!(all);
    p.class_if(!llr.0.is_finite(), "non-finite");
    p.class_if(llr.0.abs() > 1e30, "beyond-1e30");
    if llr.0.is_finite() && (8.0 * llr.0).abs() < 200.0 && llr.0.abs() > 1e-3 {
        p.nontrivial();
    }
    Ok(())
}

fn all_i16(_t: Tier) -> Vec<i32> {
    // var_llr_to_llr on every i16 value, in blocks of 4096 (one case = one block)
    (0..16).collect()
}

fn check_var_llr_to_llr(block: &i32, p: &mut Probe) -> Check {
    macro_rules! all {
        ($($t:ident),*) => {
            $(
                let a = <$t>::new();
                for k in 0..4096i32 {
                    let v = (-32768 + block * 4096 + k) as i16;
                    let got = a.var_llr_to_llr(v);
                    ensure!(got as i64 == clip(v as i64), "var_llr_to_llr", "{}: var_llr_to_llr({v}) = {got}", stringify!($t));
                    ensure!(a.llr_to_var_llr(got) as i64 == got as i64, "llr_to_var_llr", "{}: llr_to_var_llr({got}) changes the value", stringify!($t));
                    p.inner += 1;
                }
            )*
        };
    }
    crate::with_i8_types!(all);
    p.nontrivial();
    Ok(())
}

// ---------------------------------------------------------------------------
// 8-bit variable rule and layered primitive

#[derive(Debug, Clone, Serialize, Deserialize)]
pub struct I8Case {
    pub input: i8,
    pub msgs: Vec<i8>,
    /// one entry per variable of a check row: (channel, incoming messages); the
    /// first incoming message is the row's old check message, the variable LLR
    /// is channel + sum(messages) (reachable envelope by construction)
    pub row: Vec<(i8, Vec<i8>)>,
}

fn i8val() -> impl Strategy<Value = i8> {
    prop_oneof![4 => -127i8..=127, 1 => Just(127i8), 1 => Just(-127i8), 1 => prop_oneof![Just(116i8), Just(-116i8), Just(117i8), Just(-117i8), Just(100i8), Just(-100i8), Just(99i8), Just(0i8)]]
}

fn i8vec(len: impl Into<proptest::collection::SizeRange>) -> BoxedStrategy<Vec<i8>> {
    let len = len.into();
    prop_oneof![
        3 => proptest::collection::vec(i8val(), len.clone()),
        1 => proptest::collection::vec(Just(127i8), len.clone()),
        1 => proptest::collection::vec(Just(-127i8), len.clone()),
        1 => proptest::collection::vec(prop_oneof![Just(127i8), Just(-127i8)], len.clone()),
        1 => proptest::collection::vec(-20i8..=20, len),
    ]
    .boxed()
}

fn degree() -> impl Strategy<Value = usize> {
    prop_oneof![3 => 1usize..=1, 6 => 2usize..=8, 3 => 9usize..=40, 2 => 41usize..=200]
}

/// degree of the check processed by the layered update: mostly 2..=12, one in ten up to 70, one in
/// twenty up to 200 (beyond any batch or lane width)
fn row_degree() -> impl Strategy<Value = usize> {
    prop_oneof![17 => 2usize..=12, 2 => 13usize..=70, 1 => 71usize..=200]
}

pub fn i8_strategy(_t: Tier) -> BoxedStrategy<I8Case> {
    (
        i8val(),
        degree().prop_flat_map(i8vec),
        row_degree().prop_flat_map(|dd| proptest::collection::vec((i8val(), degree().prop_flat_map(i8vec)), dd)),
    )
        .prop_map(|(input, msgs, row)| I8Case { input, msgs, row })
        .boxed()
}

fn i8_one<A: I8Arith>(name: &str, a: &mut A, case: &I8Case, p: &mut Probe) -> Check {
    let jones = name.contains("Jones");
    let deg1 = name.contains("Deg1Clip");
    // --- variable rule
    let cm: Vec<Message<i8>> = case.msgs.iter().enumerate().map(|(i, &v)| Message { source: 7 + 2 * i, value: v }).collect();
    let mut out: Vec<Option<i8>> = vec![None; cm.len()];
    let mut extra = 0usize;
    let llr = guarded(|| {
        a.send_var_messages(case.input, &cm, |m: SentMessage<i8>| {
            if m.dest >= 7 && (m.dest - 7) % 2 == 0 && (m.dest - 7) / 2 < out.len() && out[(m.dest - 7) / 2].is_none() {
                out[(m.dest - 7) / 2] = Some(m.value);
            } else {
                extra += 1;
            }
        })
    })
    .map_err(|e| Fail::new("var-rule-panic", format!("{name}: send_var_messages panicked (overflow?): {e}; input {} messages {:?}", case.input, case.msgs)))?;
    ensure!(extra == 0 && out.iter().all(|o| o.is_some()), "var-rule-dest", "{name}: send_var_messages did not send exactly one message per check");
    let d1 = cm.len() == 1;
    let inp = if deg1 && d1 { (case.input as i64).clamp(-116, 116) } else { case.input as i64 };
    if deg1 && d1 && (case.input as i64).abs() > 116 {
        p.class("degree-one-clip-taken");
        p.nontrivial();
    }
    let mut t: i64 = inp + case.msgs.iter().map(|&m| m as i64).sum::<i64>();
    if t.abs() > 127 {
        p.class("total-beyond-127");
        p.nontrivial();
    }
    if jones {
        t = clip(t);
    }
    ensure!(llr as i64 == clip(t), "var-rule-llr", "{name}: variable LLR {llr}, exact saturating sum is {} (input {}, {} messages)", clip(t), case.input, case.msgs.len());
    ensure!(llr != -128, "minus128", "{name}: variable LLR is -128");
    for (i, o) in out.iter().enumerate() {
        let o = o.unwrap();
        ensure!(o != -128, "minus128", "{name}: variable message is -128");
        ensure!(o as i64 == clip(t - case.msgs[i] as i64), "var-rule-msg", "{name}: message to check {i} is {o}, exact value is {} (total {t}, own contribution {})", clip(t - case.msgs[i] as i64), case.msgs[i]);
    }
    // --- layered primitive
    let d = case.row.len();
    let olds: Vec<i8> = case.row.iter().map(|(_, m)| m[0]).collect();
    let nvars = 2 * d + 1;
    let mut vars0 = vec![0i16; nvars];
    for k in 0..nvars {
        vars0[k] = ((k as i16) * 37 % 255) - 127; // untouched variables get arbitrary values
    }
    for (i, (c, m)) in case.row.iter().enumerate() {
        let v: i64 = *c as i64 + m.iter().map(|&x| x as i64).sum::<i64>();
        vars0[2 * i + 1] = v as i16;
    }
    let mut vars = vars0.clone();
    let mut chk: Vec<SentMessage<i8>> = olds.iter().enumerate().map(|(i, &v)| SentMessage { dest: 2 * i + 1, value: v }).collect();
    if case.msgs.len() % 2 == 0 {
        // the flooding check rule on the same object first (the other entry point shares its scratch space)
        super::impls::flooding_warm(a, &case.msgs.iter().map(|&x| f64::from(x) / 8.0).collect::<Vec<f64>>());
    }
    if case.msgs.len() >= 3 {
        // an unrelated (usually larger) row processed earlier by the same arithmetic object:
        // scratch state must not leak into the next update
        let w = case.msgs.len().min(40);
        let mut wv: Vec<i16> = case.msgs[..w].iter().map(|&x| x as i16).collect();
        let mut wc: Vec<SentMessage<i8>> = (0..w).map(|i| SentMessage { dest: i, value: 0 }).collect();
        let _ = guarded(|| a.update_check_messages_and_vars(&mut wc, &mut wv));
    }
    guarded(|| a.update_check_messages_and_vars(&mut chk, &mut vars)).map_err(|e| Fail::new("layered-panic", format!("{name}: update_check_messages_and_vars panicked (overflow?): {e}; olds {olds:?} vars {vars0:?}")))?;
    let ext: Vec<i64> = (0..d).map(|i| vars0[2 * i + 1] as i64 - olds[i] as i64).collect();
    if ext.iter().any(|e| e.abs() > 127) {
        p.class("extrinsic-beyond-127");
        p.nontrivial();
    }
    let vm: Vec<Message<i8>> = ext.iter().enumerate().map(|(i, &e)| Message { source: 2 * i + 1, value: clip(e) as i8 }).collect();
    let mut newm: Vec<Option<i8>> = vec![None; d];
    a.send_check_messages(&vm, |m: SentMessage<i8>| {
        if m.dest % 2 == 1 && (m.dest - 1) / 2 < d {
            newm[(m.dest - 1) / 2] = Some(m.value);
        }
    });
    for i in 0..d {
        let nm = newm[i].ok_or_else(|| Fail::new("check-rule-dest", format!("{name}: flooding check rule sent nothing to neighbour {i}")))?;
        ensure!(chk[i].dest == 2 * i + 1, "layered-dest", "{name}: layered update changed a destination tag");
        ensure!(chk[i].value == nm, "layered-msg", "{name}: layered new message {} for neighbour {i}, flooding rule on clipped extrinsics {:?} gives {nm}", chk[i].value, vm.iter().map(|m| m.value).collect::<Vec<_>>());
        ensure!(chk[i].value != -128, "minus128", "{name}: layered message is -128");
        ensure!(vars[2 * i + 1] as i64 == ext[i] + nm as i64, "layered-var", "{name}: layered variable {} after update, extrinsic {} + new message {nm} = {}", vars[2 * i + 1], ext[i], ext[i] + nm as i64);
        ensure!(a.var_llr_to_llr(vars[2 * i + 1]) as i64 == clip(vars[2 * i + 1] as i64), "var_llr_to_llr", "{name}: var_llr_to_llr is not the symmetric clip");
    }
    for k in (0..nvars).step_by(2) {
        ensure!(vars[k] == vars0[k], "layered-untouched", "{name}: layered update modified variable {k} which is not in the row");
    }
    Ok(())
}

fn check_i8(case: &I8Case, p: &mut Probe) -> Check {
    let moved = (case.msgs.len() * 7 + case.row.len() * 3 + case.input as u8 as usize) % 16 == 5;
    p.class_if(moved, "object-used-on-another-thread");
    macro_rules! all {
        ($($t:ident),*) => {
            $( {
                let mut a = super::impls::mk(<$t>::new, (case.input as u8 ^ case.msgs.len() as u8) & 1 == 1);
                // one case in sixteen: the object built here is used on another thread
                if moved { on_other_thread(|| i8_one(stringify!($t), &mut a, case, p))?; } else { i8_one(stringify!($t), &mut a, case, p)?; }
                p.inner += 1;
            } )*
        };
    }
    crate::with_i8_types!(all);
    p.class_if(case.msgs.len() == 1, "degree-one");
    p.class_if(case.msgs.len() > 40, "degree>40");
    Ok(())
}

/// one arithmetic object serving thousands of layered updates at the envelope of the stated input
/// bound (a decoder keeps its arithmetic for its whole life): 4000 updates of a check of degree 200
/// whose variables sit at +-25 400 (the sum of 200 saturated messages) and whose old messages are
/// +-127, interleaved with small checks; no call may panic, and the last update returns exactly what
/// a fresh object returns for it
fn long_lived_cases(_t: Tier) -> Vec<u8> {
    vec![0, 1]
}

fn long_lived_one<A: I8Arith>(name: &str, fresh: fn() -> A, flavour: u8, p: &mut Probe) -> Check {
    let mut a = fresh();
    let d = 200usize;
    let mk = |round: usize, d: usize| -> (Vec<SentMessage<i8>>, Vec<i16>) {
        let chk: Vec<SentMessage<i8>> = (0..d).map(|i| SentMessage { dest: i, value: if (i + round) % 2 == 0 { 127 } else { -127 } }).collect();
        let vars: Vec<i16> = (0..d).map(|i| if (i * 7 + round) % 3 == 0 { -25_400 } else { 25_400 - (i as i16) * (flavour as i16) }).collect();
        (chk, vars)
    };
    for round in 0..4000usize {
        let (mut chk, mut vars) = mk(round, if round % 5 == 4 { 3 + round % 6 } else { d });
        guarded(|| a.update_check_messages_and_vars(&mut chk, &mut vars)).map_err(|e| Fail::new("layered-panic", format!("{name}: update number {} of one arithmetic object (check degree {}, variables at +-25 400) panicked: {e}", round + 1, chk.len())))?;
        p.inner += 1;
    }
    let (mut c1, mut v1) = mk(4001, d);
    let (mut c2, mut v2) = (c1.clone(), v1.clone());
    guarded(|| a.update_check_messages_and_vars(&mut c1, &mut v1)).map_err(|e| Fail::new("layered-panic", format!("{name}: update 4001 of one arithmetic object panicked: {e}")))?;
    let mut b = fresh();
    b.update_check_messages_and_vars(&mut c2, &mut v2);
    ensure!(v1 == v2 && c1.iter().zip(&c2).all(|(x, y)| x.dest == y.dest && x.value == y.value), "long-lived-object-differs", "{name}: after 4000 layered updates the arithmetic object returns other messages or variables than a fresh object for the same check");
    Ok(())
}

fn check_long_lived(flavour: &u8, p: &mut Probe) -> Check {
    macro_rules! all {
        ($($t:ident),*) => {
            $( long_lived_one(stringify!($t), <$t>::new, *flavour, p)?; )*
        };
    }
    crate::with_i8_types!(all);
    p.nontrivial();
    Ok(())
}

/// fuzz-target body: a byte tape decoded into an 8-bit case (+ a quantiser probe)
pub fn fuzz_bytes(data: &[u8]) -> Check {
    let mut it = data.iter().copied();
    let mut b = || it.next().unwrap_or(0);
    let val = |x: u8| -> i8 {
        let v = x as i8;
        if v == -128 { -127 } else { v }
    };
    let mut bits = [0u8; 8];
    for x in bits.iter_mut() {
        *x = b();
    }
    let llr = f64::from_bits(u64::from_le_bytes(bits));
    let input = val(b());
    let nm = 1 + (b() as usize % 200);
    let msgs: Vec<i8> = (0..nm).map(|_| val(b())).collect();
    let dd = 2 + (b() as usize % 11);
    let row: Vec<(i8, Vec<i8>)> = (0..dd)
        .map(|_| {
            let c = val(b());
            let k = 1 + (b() as usize % 200);
            (c, (0..k).map(|_| val(b())).collect())
        })
        .collect();
    let case = I8Case { input, msgs, row };
    let mut p = Probe::default();
    guarded_check(|| {
        check_quantizer(&Fx(llr), &mut p)?;
        check_i8(&case, &mut p)
    })
}

// ---------------------------------------------------------------------------
// float types

pub trait Fl: Copy + std::fmt::Debug + PartialEq + Default + Send + 'static {
    const EPS: f64;
    fn from64(x: f64) -> Self;
    fn to64(self) -> f64;
}
impl Fl for f64 {
    const EPS: f64 = f64::EPSILON;
    fn from64(x: f64) -> f64 {
        x
    }
    fn to64(self) -> f64 {
        self
    }
}
impl Fl for f32 {
    const EPS: f64 = f32::EPSILON as f64;
    fn from64(x: f64) -> f32 {
        x as f32
    }
    fn to64(self) -> f64 {
        self as f64
    }
}

pub trait FArith<F: Fl>: DecoderArithmetic<Llr = F, CheckMessage = F, VarMessage = F, VarLlr = F> {}
impl<F: Fl, T> FArith<F> for T where T: DecoderArithmetic<Llr = F, CheckMessage = F, VarMessage = F, VarLlr = F> {}

#[derive(Debug, Clone, Serialize, Deserialize)]
pub struct FCase {
    pub input: Fx,
    pub msgs: Vec<Fx>,
    pub olds: Vec<Fx>,
    pub vars: Vec<Fx>,
}

fn fval(range: f64) -> impl Strategy<Value = f64> {
    // a fifth of the values from a coarse grid of halves, so that equal magnitudes (ties at the
    // smallest magnitude, hard-decision style LLRs) occur within one check
    prop_oneof![12 => -range..range, 1 => Just(0.0), 1 => Just(-0.0), 2 => -0.01f64..0.01, 2 => (-range * 10.0)..(range * 10.0), 4 => (-6i32..=6).prop_map(|k| f64::from(k) * 0.5)]
}

pub fn f_strategy(_t: Tier) -> BoxedStrategy<FCase> {
    (fval(20.0), degree().prop_flat_map(|d| proptest::collection::vec(fval(20.0), d)), row_degree().prop_flat_map(|dd| (proptest::collection::vec(fval(12.0), dd), proptest::collection::vec(fval(30.0), dd))))
        .prop_map(|(input, msgs, (olds, vars))| FCase { input: Fx(input), msgs: msgs.into_iter().map(Fx).collect(), olds: olds.into_iter().map(Fx).collect(), vars: vars.into_iter().map(Fx).collect() })
        .boxed()
}

fn f_one<F: Fl, A: FArith<F>>(name: &str, a: &mut A, case: &FCase, p: &mut Probe) -> Check {
    // --- variable rule against f64 sums of the (exactly representable) inputs
    let input = F::from64(case.input.0);
    let msgs: Vec<F> = case.msgs.iter().map(|x| F::from64(x.0)).collect();
    let cm: Vec<Message<F>> = msgs.iter().enumerate().map(|(i, &v)| Message { source: 3 + i, value: v }).collect();
    let mut out: Vec<Option<F>> = vec![None; cm.len()];
    let mut extra = 0;
    let llr = guarded(|| {
        a.send_var_messages(input, &cm, |m: SentMessage<F>| {
            if m.dest >= 3 && m.dest - 3 < out.len() && out[m.dest - 3].is_none() {
                out[m.dest - 3] = Some(m.value);
            } else {
                extra += 1;
            }
        })
    })
    .map_err(|e| Fail::new("var-rule-panic", format!("{name}: send_var_messages panicked: {e}")))?;
    ensure!(extra == 0 && out.iter().all(|o| o.is_some()), "var-rule-dest", "{name}: send_var_messages did not send exactly one message per check");
    let exact: f64 = input.to64() + msgs.iter().map(|m| m.to64()).sum::<f64>();
    let mag: f64 = input.to64().abs() + msgs.iter().map(|m| m.to64().abs()).sum::<f64>();
    let tol = 16.0 * F::EPS * (mag * (msgs.len() as f64 + 1.0)).max(f64::MIN_POSITIVE);
    let err = (llr.to64() - exact).abs();
    p.metric("var_err_over_tol", err / tol);
    ensure!(err <= tol, "var-rule-llr", "{name}: variable LLR {:?}, channel LLR plus all messages is {exact:e} (tol {tol:e})", llr);
    for (i, o) in out.iter().enumerate() {
        let want = exact - msgs[i].to64();
        let err = (o.unwrap().to64() - want).abs();
        ensure!(err <= tol, "var-rule-msg", "{name}: message to check {i} is {:?}, total minus own contribution is {want:e} (tol {tol:e})", o.unwrap());
    }
    ensure!(a.input_llr_quantize(case.input.0) == F::from64(case.input.0), "float-quantize", "{name}: input_llr_quantize is not the plain conversion");
    // --- layered primitive (in half of the cases after the flooding check rule on the same object)
    if case.msgs.len() % 2 == 0 {
        super::impls::flooding_warm(a, &case.msgs.iter().map(|x| x.0).collect::<Vec<f64>>());
    }
    let d = case.olds.len();
    let olds: Vec<F> = case.olds.iter().map(|x| F::from64(x.0)).collect();
    let nvars = 2 * d + 1;
    let mut vars0: Vec<F> = (0..nvars).map(|k| F::from64(k as f64 * 0.75 - 3.0)).collect();
    for i in 0..d {
        vars0[2 * i + 1] = F::from64(case.vars[i].0);
    }
    let mut vars = vars0.clone();
    let mut chk: Vec<SentMessage<F>> = olds.iter().enumerate().map(|(i, &v)| SentMessage { dest: 2 * i + 1, value: v }).collect();
    if msgs.len() >= 3 {
        // an unrelated (usually larger) row processed earlier by the same arithmetic object
        let w = msgs.len().min(40);
        let mut wv: Vec<F> = msgs[..w].to_vec();
        let mut wc: Vec<SentMessage<F>> = (0..w).map(|i| SentMessage { dest: i, value: F::default() }).collect();
        let _ = guarded(|| a.update_check_messages_and_vars(&mut wc, &mut wv));
    }
    guarded(|| a.update_check_messages_and_vars(&mut chk, &mut vars)).map_err(|e| Fail::new("layered-panic", format!("{name}: update_check_messages_and_vars panicked: {e}")))?;
    // extrinsic values in the arithmetic's own precision (one rounding, as any implementation must do)
    let ext: Vec<F> = (0..d).map(|i| F::from64(vars0[2 * i + 1].to64() - olds[i].to64())).collect();
    let vm: Vec<Message<F>> = ext.iter().enumerate().map(|(i, &e)| Message { source: 2 * i + 1, value: e }).collect();
    let mut newm: Vec<Option<F>> = vec![None; d];
    a.send_check_messages(&vm, |m: SentMessage<F>| {
        if m.dest % 2 == 1 && (m.dest - 1) / 2 < d {
            newm[(m.dest - 1) / 2] = Some(m.value);
        }
    });
    for i in 0..d {
        let nm = newm[i].ok_or_else(|| Fail::new("check-rule-dest", format!("{name}: flooding check rule sent nothing to neighbour {i}")))?.to64();
        let scale = vars0[2 * i + 1].to64().abs() + olds[i].to64().abs() + nm.abs() + 1.0;
        let tol = 16.0 * F::EPS * scale;
        let e1 = (chk[i].value.to64() - nm).abs();
        let e2 = (vars[2 * i + 1].to64() - (ext[i].to64() + nm)).abs();
        p.metric("layered_err_over_tol", e1.max(e2) / tol);
        ensure!(chk[i].dest == 2 * i + 1, "layered-dest", "{name}: layered update changed a destination tag");
        ensure!(e1 <= tol, "layered-msg", "{name}: layered new message {:?} for neighbour {i}, flooding rule on the extrinsic values gives {nm:e}", chk[i].value);
        ensure!(e2 <= tol, "layered-var", "{name}: layered variable {:?} after update, extrinsic + new message = {:e}", vars[2 * i + 1], ext[i].to64() + nm);
    }
    for k in (0..nvars).step_by(2) {
        ensure!(vars[k] == vars0[k], "layered-untouched", "{name}: layered update modified variable {k} which is not in the row");
    }
    Ok(())
}

fn check_f(case: &FCase, p: &mut Probe) -> Check {
    let moved = (case.msgs.len() * 7 + case.olds.len() * 3) % 16 == 5;
    p.class_if(moved, "object-used-on-another-thread");
    macro_rules! all64 {
        ($($t:ident),*) => { $( {
            let mut a = super::impls::mk(<$t>::new, case.msgs.len() % 2 == 1);
            if moved { on_other_thread(|| f_one::<f64, $t>(stringify!($t), &mut a, case, p))?; } else { f_one::<f64, $t>(stringify!($t), &mut a, case, p)?; }
            p.inner += 1;
        } )* };
    }
    macro_rules! all32 {
        ($($t:ident),*) => { $( {
            let mut a = super::impls::mk(<$t>::new, case.msgs.len() % 2 == 1);
            if moved { on_other_thread(|| f_one::<f32, $t>(stringify!($t), &mut a, case, p))?; } else { f_one::<f32, $t>(stringify!($t), &mut a, case, p)?; }
            p.inner += 1;
        } )* };
    }
    crate::with_f64_types!(all64);
    crate::with_f32_types!(all32);
    if case.msgs.len() >= 2 {
        p.nontrivial();
    }
    Ok(())
}

pub fn property() -> Property {
    Property {
        id: "C05",
        subs: vec![
            Box::new(Sub {
                name: "quantizer",
                rule: "the sixteen 8-bit types x channel LLRs drawn from: uniform f64 bit patterns, NaN, +-inf, +-0, every k/16 for |k| <= 2100 and its two neighbours, +-127/8 +- 1e-9, uniform +-20; oracle: never -128 / never a panic (overflow checks on), for finite input exactly round(8*llr) saturated to +-127 (either neighbour accepted at exact .5 ties); non-trivial = finite input inside the unsaturated range; inner = (type, value) evaluations",
                cases: |t| t.pick(1_000_000, 50_000_000),
                strategy: |_| llr_any_bits().prop_map(Fx).boxed(),
                check: check_quantizer,
                health: &[("quantizer-saturated", 0.10), ("quantizer-tie", 0.02)],
            }),
            Box::new(EnumSub {
                name: "var-llr-clip",
                rule: "exhaustive: var_llr_to_llr on every i16 value for the sixteen 8-bit types equals the symmetric clip to [-127,127]",
                cases: all_i16,
                check: check_var_llr_to_llr,
                exhaustive: true,
            }),
            Box::new(Sub {
                name: "i8-rules",
                rule: "the sixteen 8-bit types: (a) variable rule with degree 1..=200 (weighted 1 / 2-8 / 9-40 / 41-200), incoming messages in [-127,127] (uniform, all +127, all -127, mixed +-127, small), channel value incl. +-116/117/127, against exact i64 arithmetic with Jones clipping and degree-one clipping applied exactly where the type name says; (b) layered primitive on rows of degree 2..=12 (one in ten 13..=70, one in twenty 71..=200; after an unrelated, usually larger row was processed by the same arithmetic object) whose variable LLRs are built as channel + sum of 1..=200 messages (reachable envelope by construction), against the type's own flooding check rule on the clipped extrinsics + add, other variables untouched; exact equality; non-trivial = a saturation/clipping branch taken (|total| > 127, degree-one clip, |extrinsic| > 127)",
                cases: |t| t.pick(300_000, 10_000_000),
                strategy: i8_strategy,
                check: check_i8,
                health: &[("total-beyond-127", 0.20), ("degree-one-clip-taken", 0.02), ("extrinsic-beyond-127", 0.10)],
            }),
            Box::new(EnumSub {
                name: "long-lived-arithmetic",
                rule: "each of the 16 8-bit arithmetics: one object performs 4000 layered updates (four in five on a check of degree 200 with variables at +-25 400 and old messages of +-127, the envelope of the stated bound; one in five on a check of degree 3..=8): no call panics, and update 4001 returns exactly what a fresh object returns",
                cases: long_lived_cases,
                check: check_long_lived,
                exhaustive: false,
            }),
            Box::new(Sub {
                name: "float-rules",
                rule: "the eight float types: variable rule (degree 1..=200, finite values up to +-200) within 16*eps*(d+1)*sum|terms| of the f64 sums; layered primitive on rows of degree 2..=12 (one in ten 13..=70, one in twenty 71..=200) equals the flooding check rule on the extrinsic values + add within 16*eps*scale; non-trivial = degree >= 2",
                cases: |t| t.pick(300_000, 10_000_000),
                strategy: f_strategy,
                check: check_f,
                health: &[],
            }),
        ],
        assumptions: vec![
            "harness and library are compiled with overflow-checks and debug-assertions, so integer wrap-around surfaces as a panic".into(),
            "exact .5 ties of the quantiser may round either way (the property does not fix the tie rule)".into(),
        ],
    }
}
