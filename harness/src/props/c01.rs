//! C01 — a decoder never reports success on a word that is not a codeword.

use super::decgen::*;
use super::impls::*;
use crate::common::*;
use crate::engine::*;
use crate::ensure;

pub fn check_one(name: &str, res: &Result<ldpc_toolbox::decoder::DecoderOutput, ldpc_toolbox::decoder::DecoderOutput>, h: &Mat, llrs: &[f64], limit: usize) -> Check {
    let n = h.cols;
    let sign = sign_pattern(llrs);
    let sign_ok = h.syndrome_ok(&sign);
    match res {
        Ok(o) => {
            ensure!(o.codeword.len() == n, "ok-length", "{name}: success word has length {} (n = {n})", o.codeword.len());
            ensure!(o.codeword.iter().all(|&b| b <= 1), "ok-bits", "{name}: success word has a symbol outside {{0,1}}: {:?}", o.codeword);
            ensure!(h.syndrome_ok(&o.codeword), "ok-not-codeword", "{name}: reported success after {} iterations on a word violating a parity check: {:?}", o.iterations, o.codeword);
            ensure!(o.iterations <= limit, "ok-iterations", "{name}: success with {} iterations, limit {limit}", o.iterations);
            ensure!((o.iterations == 0) == sign_ok, "ok-zero-iff", "{name}: success with {} iterations but the input sign pattern is{} a codeword", o.iterations, if sign_ok { "" } else { " not" });
            if sign_ok {
                ensure!(o.codeword == sign, "ok-zero-word", "{name}: zero-iteration success returned {:?}, sign pattern is {:?}", o.codeword, sign);
            }
        }
        Err(o) => {
            ensure!(o.codeword.len() == n, "err-length", "{name}: failure word has length {} (n = {n})", o.codeword.len());
            ensure!(o.iterations == limit, "err-iterations", "{name}: failure reports {} iterations, limit {limit}", o.iterations);
            if limit >= 1 {
                ensure!(o.codeword.iter().all(|&b| b <= 1), "err-bits", "{name}: failure word has a symbol outside {{0,1}}");
                ensure!(!h.syndrome_ok(&o.codeword), "err-is-codeword", "{name}: reported failure (limit {limit}) with a word that satisfies every check: {:?}", o.codeword);
            }
        }
    }
    Ok(())
}

fn check(case: &DecCase, p: &mut Probe) -> Check {
    let llrs = fx_vec(&case.llrs);
    let hs = case.h.to_sparse();
    let sign_ok = case.h.syndrome_ok(&sign_pattern(&llrs));
    let mut any_conv = false;
    let mut any_fail = false;
    let mut huge = false;
    for imp in factory_variants() {
        let name = imp.to_string();
        let mut dec = build_factory(&imp, hs.clone());
        let res = guarded(|| dec.decode(&llrs, case.limit)).map_err(|e| Fail::new("panic", format!("{name}: decode panicked: {e}")))?;
        check_one(&name, &res, &case.h, &llrs, case.limit)?;
        // the statement holds for every call, not only the first one on an object: a third of the decodes
        // are followed by a second call on the same decoder (the same frame under another limit), whose
        // result is judged by the same clauses
        if (case.limit + case.llrs.len() + name.len()) % 3 == 1 {
            let lim2 = [1usize, 3, 0, 7][(case.llrs.len() + name.len()) % 4];
            let r2 = guarded(|| dec.decode(&llrs, lim2)).map_err(|e| Fail::new("panic", format!("{name}: second decode on the same object panicked: {e}")))?;
            check_one(&format!("{name} (second call on the object, after {})", if res.is_ok() { "a success" } else { "a failure" }), &r2, &case.h, &llrs, lim2)?;
            p.class("second-call-on-the-same-decoder");
            p.inner += 1;
        }
        // "every iteration limit": a frame that converges after i >= 1 iterations converges identically
        // under any larger limit, however large (the limit only bounds the loop); tried on a quarter
        // of the converged decodes with limits up to usize::MAX, on a fresh decoder
        if let Ok(o) = &res {
            if o.iterations >= 1 && (case.limit + case.llrs.len() + name.len()) % 4 == 0 {
                let big = [usize::MAX, 1usize << 32, (1usize << 31) + 7, 65_536 + o.iterations, u32::MAX as usize, i32::MAX as usize][(case.llrs.len() + name.len()) % 6];
                let mut d2 = build_factory(&imp, hs.clone());
                let r2 = guarded(|| d2.decode(&llrs, big)).map_err(|e| Fail::new("panic", format!("{name}: decode with limit {big} panicked: {e}")))?;
                check_one(&name, &r2, &case.h, &llrs, big)?;
                ensure!(r2.as_ref().is_ok_and(|o2| o2.iterations == o.iterations && o2.codeword == o.codeword), "huge-limit", "{name}: with limit {} the frame converges after {} iterations to {:?}, with limit {big} the decoder returns {r2:?}", case.limit, o.iterations, o.codeword);
                huge = true;
                p.inner += 1;
            }
        }
        match &res {
            Ok(o) if o.iterations >= 1 => any_conv = true,
            Err(_) if case.limit >= 1 => any_fail = true,
            _ => {}
        }
        p.inner += 1;
    }
    p.class_if(any_conv, "converged-after>=1");
    p.class_if(any_fail, "failed-at-limit>=1");
    p.class_if(sign_ok, "zero-iteration");
    p.class_if(huge, "huge-limit-retried");
    p.class_if(case.limit == 0, "limit-0");
    p.class_if(case.llrs.iter().any(|x| x.0 == 0.0), "has-exact-zero");
    p.class_if(case.llrs.iter().any(|x| x.0.abs() >= 1e29), "has-1e30");
    if !sign_ok && case.limit >= 1 {
        p.nontrivial();
    }
    Ok(())
}

/// one decoder object per name serving a long run of frames (a simulation worker decodes thousands):
/// 33..=70 frames with free LLRs under limits 0, 1, 2 (most of them fail), then 1..=4 frames of any
/// class (exact codewords among them) under any limit; every single result is judged by the clauses
/// of the property
#[derive(Debug, Clone, serde::Serialize, serde::Deserialize)]
pub struct HistCase {
    pub h: Mat,
    pub frames: Vec<(Vec<Fx>, usize)>,
}

fn hist_strategy(_t: Tier) -> proptest::prelude::BoxedStrategy<HistCase> {
    use proptest::prelude::*;
    decoder_matrix(6, 12)
        .prop_flat_map(|h| {
            let l = llr_vector(&h);
            let n = h.cols;
            (Just(h), proptest::collection::vec((proptest::collection::vec(-4.0f64..4.0, n), prop_oneof![3 => Just(0usize), 1 => Just(1usize), 1 => Just(2usize)]), 33..=70), proptest::collection::vec((l, limit_strategy()), 1..=4))
        })
        .prop_map(|(h, a, b)| HistCase { h, frames: a.into_iter().chain(b).map(|(v, l)| (v.into_iter().map(Fx).collect(), l)).collect() })
        .boxed()
}

fn check_hist(case: &HistCase, p: &mut Probe) -> Check {
    let hs = case.h.to_sparse();
    let frames: Vec<(Vec<f64>, usize)> = case.frames.iter().map(|(v, l)| (fx_vec(v), *l)).collect();
    let mut zero_after_many = false;
    for imp in factory_variants() {
        let name = imp.to_string();
        let mut dec = build_factory(&imp, hs.clone());
        let mut failures_in_a_row = 0usize;
        for (i, (llrs, limit)) in frames.iter().enumerate() {
            let res = guarded(|| dec.decode(llrs, *limit)).map_err(|e| Fail::new("panic", format!("{name}: call {i} on one decoder object panicked: {e}")))?;
            check_one(&format!("{name} (call {i} on one decoder object, after {failures_in_a_row} calls in a row that did not succeed)"), &res, &case.h, llrs, *limit)?;
            if res.is_ok() {
                zero_after_many |= failures_in_a_row >= 32 && case.h.syndrome_ok(&sign_pattern(llrs));
                failures_in_a_row = 0;
            } else {
                failures_in_a_row += 1;
            }
            p.inner += 1;
        }
    }
    p.class_if(zero_after_many, "codeword-frame-after-32-or-more-failures");
    p.nontrivial();
    Ok(())
}

/// matrices without any check (0 x n: "every check involves at least two bits" holds for each of
/// the none there are): every word is a codeword, so every call succeeds with 0 iterations and the
/// sign pattern of its input
fn no_check_cases(_t: Tier) -> Vec<(usize, u8)> {
    [1usize, 2, 6, 64, 257].iter().flat_map(|&n| (0..4u8).map(move |v| (n, v))).collect()
}

fn check_no_checks(c: &(usize, u8), p: &mut Probe) -> Check {
    let (n, v) = *c;
    let h = Mat::new(0, n);
    let hs = h.to_sparse();
    let llrs: Vec<f64> = (0..n).map(|i| match v {
        0 => 1.5,
        1 => if i % 3 == 0 { -2.25 } else { 0.75 },
        2 => if i % 2 == 0 { 0.0 } else { -1e30 },
        _ => [5e-324, -0.0, 14.5, -15.875, 1e-30][i % 5],
    }).collect();
    for imp in factory_variants() {
        let name = imp.to_string();
        let mut dec = guarded(|| build_factory(&imp, hs.clone())).map_err(|e| Fail::new("panic", format!("{name}: building a decoder for a 0 x {n} matrix panicked: {e}")))?;
        for limit in [0usize, 1, 7] {
            let res = guarded(|| dec.decode(&llrs, limit)).map_err(|e| Fail::new("panic", format!("{name}: decode panicked on a 0 x {n} matrix (no checks, limit {limit}): {e}")))?;
            check_one(&name, &res, &h, &llrs, limit)?;
            ensure!(res.is_ok(), "no-checks-failure", "{name}: 0 x {n} matrix, limit {limit}: every word satisfies all (zero) checks, but the decoder returns {res:?}");
            p.inner += 1;
        }
    }
    p.nontrivial();
    Ok(())
}

pub fn property() -> Property {
    Property {
        id: "C01",
        subs: vec![
            Box::new(Sub {
                name: "validity",
                rule: "all names from DecoderImplementation::value_variants() x generated (H, LLR, limit): H 1..=8 x 2..=14 (thorough sub-check 'large' up to 40x120) with every row weight >= 2 in six classes (sparse, one dense row, duplicate rows, columns shared by all rows = high degree, medium, any); LLR vectors by class (free components incl. the special catalogue: +-0, subnormal, 1e-30, 1e30, 8-bit rounding boundaries +-1ulp, 12.5, 14.5, 15.875; noisy codeword of H from an own null-space basis; exact codeword; all-special; punctured zero block; extremes); limit in {0,1,2,3,5,10,30,200}; a third of the decodes followed by a second call on the same decoder object (limit 0, 1, 3 or 7) judged by the same clauses; and for a quarter of the decodes that converge after >= 1 iterations a second, fresh decode with a limit of 65536+i, 2^31-1, 2^31+7, 2^32-1, 2^32 or usize::MAX, which must converge identically; oracle = own syndrome over the returned word + the iteration-count clauses; non-trivial = sign pattern not a codeword and limit >= 1; inner evaluations = decodes",
                cases: |t| t.pick(100_000, 3_000_000),
                strategy: |_| dec_case(8, 14),
                check,
                health: &[("converged-after>=1", 0.20), ("failed-at-limit>=1", 0.20), ("zero-iteration", 0.05), ("limit-0", 0.05)],
            }),
            Box::new(Sub {
                name: "long-lived-object",
                rule: "H up to 6 x 12; one decoder object per name decodes 33..=70 frames with free LLRs in (-4, 4) under limits 0, 1, 2 and then 1..=4 frames of the classes above (exact codewords among them) under any limit: every single result satisfies the clauses of the property (in particular 0 iterations exactly for sign patterns that are codewords, however many calls failed before)",
                cases: |t| t.pick(1_000, 30_000),
                strategy: hist_strategy,
                check: check_hist,
                health: &[],
            }),
            Box::new(EnumSub {
                name: "no-checks",
                rule: "matrices 0 x n (n = 1, 2, 6, 64, 257) x four LLR vectors x the 36 names x limits 0, 1, 7 on one object: Ok with 0 iterations and the sign pattern of the input",
                cases: no_check_cases,
                check: check_no_checks,
                exhaustive: false,
            }),
            Box::new(Sub {
                name: "large",
                rule: "same oracle on matrices up to 40 x 120",
                cases: |t| t.pick(1_500, 40_000),
                strategy: |_| dec_case(40, 120),
                check,
                health: &[],
            }),
            Box::new(Sub {
                name: "real-codes",
                rule: "the toolbox's own codes (DVB-S2 short 1/2 and 8/9, AR4JA k=1024 rate 1/2 and 4/5 with their punctured block as exact zeros) and a synthetic staircase code of 70 600 bits (longer than 2^16, which no code of the toolbox is), a codeword from an own encoder / null-space sample, deterministic AWGN from the case seed with sigma around the decoding threshold (0.3..2.0 times the threshold; one case in seven 0.05..0.2 times it, where the sign pattern is the codeword itself), limits {0,1,5,20,50}; the same validity predicate for all 36 implementations; non-trivial = limit >= 1",
                cases: |t| t.pick(48, 2_000),
                strategy: super::realcodes::strategy,
                check: super::realcodes::check_c01,
                health: &[],
            }),
        ],
        assumptions: vec![
            "a failure result for an input whose sign pattern is a codeword is not judged (the statement constrains successes and failures with limit >= 1 only)".into(),
        ],
    }
}
