//! C16 — pseudorandom constructions honour their configuration and are reproducible.

use crate::common::*;
use crate::engine::*;
use crate::ensure;
use ldpc_toolbox::sparse::SparseMatrix;
use ldpc_toolbox::{mackay_neal, peg};
use proptest::prelude::*;
use serde::{Deserialize, Serialize};

// ---------------------------------------------------------------------------
// MacKay-Neal

#[derive(Debug, Clone, Serialize, Deserialize)]
pub struct MnCase {
    pub nrows: usize,
    pub ncols: usize,
    pub wr: usize,
    pub wc: usize,
    pub backtrack_cols: usize,
    pub backtrack_trials: usize,
    pub min_girth: Option<usize>,
    pub girth_trials: usize,
    pub uniform: bool,
    pub seed: u64,
    pub search_start: u64,
    pub search_tries: u64,
    pub threads: usize,
}

impl MnCase {
    fn config(&self) -> mackay_neal::Config {
        mackay_neal::Config {
            nrows: self.nrows,
            ncols: self.ncols,
            wr: self.wr,
            wc: self.wc,
            backtrack_cols: self.backtrack_cols,
            backtrack_trials: self.backtrack_trials,
            min_girth: self.min_girth,
            girth_trials: self.girth_trials,
            fill_policy: if self.uniform { mackay_neal::FillPolicy::Uniform } else { mackay_neal::FillPolicy::Random },
        }
    }
}

/// very heavy rows: two or three rows, more than 2^17 columns of weight one under the uniform
/// policy, so that row weights pass 2^16
fn mn_heavy_rows() -> BoxedStrategy<MnCase> {
    (2usize..=3, 131_100usize..=140_000, 0usize..=2, any::<u64>())
        .prop_map(|(nrows, ncols, slack, seed)| MnCase { nrows, ncols, wr: ncols.div_ceil(nrows) + slack, wc: 1, backtrack_cols: 0, backtrack_trials: 0, min_girth: None, girth_trials: 0, uniform: true, seed, search_start: seed % 1000, search_tries: 1, threads: 1 })
        .boxed()
}

fn mn_strategy(t: Tier) -> BoxedStrategy<MnCase> {
    prop_oneof![400 => mn_strategy_small(t), 1 => mn_heavy_rows()].boxed()
}

fn mn_strategy_small(t: Tier) -> BoxedStrategy<MnCase> {
    let (maxr, maxc) = t.pick((12usize, 24usize), (20, 48));
    mn_strategy_dims(maxr, maxc)
}
/// matrices of a few dozen rows and up to 160 columns (row weights and node counts beyond 64)
fn mn_strategy_medium(_t: Tier) -> BoxedStrategy<MnCase> {
    mn_strategy_dims(64, 160).prop_map(|mut c| {
        c.search_tries = c.search_tries.min(8);
        c
    }).boxed()
}
fn mn_strategy_dims(maxr: usize, maxc: usize) -> BoxedStrategy<MnCase> {
    (
        // slack 3 stands for -1: a maximum row weight below what the column weights need (must fail, or at least never exceed wr)
        (prop_oneof![1 => Just(1usize), 20 => 2..=maxr], prop_oneof![1 => Just(1usize), 20 => 2..=maxc], prop_oneof![1 => Just(0usize), 30 => 1usize..=4], prop_oneof![12 => Just(0usize), 4 => Just(1usize), 4 => Just(2usize), 2 => Just(3usize), 1 => Just(4usize), 1 => Just(5usize), 1 => Just(6usize)], any::<bool>()),
        (prop_oneof![4 => Just(None), 1 => Just(Some(4usize)), 4 => Just(Some(6usize)), 2 => Just(Some(8usize)), 3 => (1usize..=11).prop_map(Some), 1 => prop_oneof![Just(Some(usize::MAX)), Just(Some(1usize << 40)), Just(Some(isize::MAX as usize + 1))]], prop_oneof![2 => 0usize..=6, 1 => 7usize..=30], 0usize..=3, prop_oneof![2 => Just(0usize), 1 => 1usize..=5]),
        (any::<u64>(), prop_oneof![any::<u64>(), 0u64..1000, (u64::MAX - 200)..(u64::MAX - 70)], 1u64..=64, prop_oneof![Just(1usize), Just(2), Just(4), Just(16)]),
    )
        .prop_map(|((nrows, ncols, wc, slack, uniform), (min_girth, girth_trials, backtrack_cols, backtrack_trials), (seed, search_start, search_tries, threads))| {
            let wc = wc.min(nrows);
            // slack 4 / 5: "no limit" spelled as the largest value, or as 2^62
            let wr = match slack {
                3 => ((ncols * wc).div_ceil(nrows)).saturating_sub(1).max(1),
                4 => usize::MAX,
                5 => 1usize << 62,
                // a maximum row weight of 0: no row may hold a one (only the all-zero matrix, for wc = 0, is possible)
                6 => 0,
                _ => (ncols * wc).div_ceil(nrows) + slack,
            };
            let search_start = search_start.min(u64::MAX - 100);
            MnCase { nrows, ncols, wr, wc, backtrack_cols, backtrack_trials, min_girth, girth_trials, uniform, seed, search_start, search_tries, threads }
        })
        .boxed()
}

fn mn_validate(case: &MnCase, h: &SparseMatrix, what: &str) -> Check {
    ensure!(h.num_rows() == case.nrows && h.num_cols() == case.ncols, "mn-size", "{what}: matrix is {} x {}, requested {} x {}", h.num_rows(), h.num_cols(), case.nrows, case.ncols);
    let m = Mat::from_sparse(h);
    let cols = m.col_lists();
    let rows = m.row_lists();
    for (c, l) in cols.iter().enumerate() {
        ensure!(l.len() == case.wc, "mn-col-weight", "{what}: column {c} has weight {}, requested {}", l.len(), case.wc);
        ensure!(h.col_weight(c) == case.wc, "mn-col-weight", "{what}: col_weight({c}) = {}", h.col_weight(c));
    }
    let ws: Vec<usize> = rows.iter().map(|l| l.len()).collect();
    for (r, &w) in ws.iter().enumerate() {
        ensure!(w <= case.wr, "mn-row-weight", "{what}: row {r} has weight {w} > maximum {}", case.wr);
    }
    if let Some(g) = case.min_girth {
        let girth = Graph::from_mat(&m).girth();
        ensure!(girth.is_none_or(|x| x >= g), "mn-girth", "{what}: girth {girth:?} is below the requested minimum {g}");
    }
    if case.uniform && case.min_girth.is_none() {
        let (mx, mn) = (ws.iter().max().unwrap(), ws.iter().min().unwrap());
        ensure!(mx - mn <= 1, "mn-uniform", "{what}: uniform policy produced row weights {ws:?}");
    }
    Ok(())
}

fn check_mn(case: &MnCase, p: &mut Probe) -> Check {
    let conf = case.config();
    let r = guarded(|| conf.run(case.seed)).map_err(|e| Fail::new("mn-panic", format!("run({}) panicked: {e}; {conf:?}", case.seed)))?;
    // determinism (second run on another thread)
    let r2 = std::thread::scope(|s| s.spawn(|| guarded(|| conf.run(case.seed))).join().unwrap()).map_err(|e| Fail::new("mn-panic", format!("second run panicked: {e}")))?;
    ensure!(r == r2, "mn-determinism", "two runs with seed {} differ", case.seed);
    p.class_if(r.is_ok(), "run-succeeded");
    if let Ok(h) = &r {
        mn_validate(case, h, &format!("run({})", case.seed))?;
    }
    // neighbouring seeds: success next to failure indicates backtracking / retries mattered
    let mut outcomes = Vec::new();
    let mut distinct = std::collections::BTreeSet::new();
    for ds in 0..4u64 {
        let s = case.seed.wrapping_add(ds);
        let x = if ds == 0 { r.clone() } else { guarded(|| conf.run(s)).map_err(|e| Fail::new("mn-panic", format!("run({s}) panicked: {e}")))? };
        if let Ok(h) = &x {
            if ds > 0 {
                mn_validate(case, h, &format!("run({s})"))?;
            }
            distinct.insert(Mat::from_sparse(h).set());
        }
        outcomes.push(x.is_ok());
    }
    let mixed = outcomes.iter().any(|&b| b) && outcomes.iter().any(|&b| !b);
    p.class_if(mixed, "neighbouring-seeds-mixed");
    if r.is_ok() && (case.backtrack_trials > 0 || case.min_girth.is_some()) && mixed {
        p.class("backtracking-or-girth-retry-mattered");
        p.nontrivial();
    }
    // seed sensitivity: with many admissible outputs, four seeds should not all coincide
    let successes = outcomes.iter().filter(|&&b| b).count();
    let room = case.ncols >= 6 && case.nrows >= 4 && case.wc >= 1 && case.wc < case.nrows;
    if successes >= 4 && room {
        p.class("seed-sensitivity-checked");
        if distinct.len() < 2 {
            // look further before concluding (keeps the false-alarm probability negligible)
            for ds in 4..16u64 {
                if let Ok(h) = conf.run(case.seed.wrapping_add(ds)) {
                    distinct.insert(Mat::from_sparse(&h).set());
                }
            }
        }
        ensure!(distinct.len() >= 2, "mn-seed-insensitive", "seeds {}..+16 all produce the same {} x {} matrix", case.seed, case.nrows, case.ncols);
    }
    // parallel seed search under a pool of the requested size
    let start = case.search_start;
    let tries = case.search_tries;
    let seq: Vec<u64> = (start..start + tries).filter(|&s| conf.run(s).is_ok()).collect();
    let pool = rayon::ThreadPoolBuilder::new().num_threads(case.threads).build().map_err(|e| Fail::new("harness", format!("cannot build rayon pool: {e}")))?;
    let sr = guarded(|| pool.install(|| conf.search(start, tries))).map_err(|e| Fail::new("mn-search-panic", format!("search({start}, {tries}) panicked: {e}")))?;
    match sr {
        None => ensure!(seq.is_empty(), "mn-search-none", "search({start}, {tries}) found nothing although seeds {seq:?} succeed"),
        Some((s, h)) => {
            ensure!(s >= start && s < start + tries, "mn-search-range", "search({start}, {tries}) returned seed {s} outside the range");
            let own = conf.run(s);
            ensure!(own.as_ref().ok() == Some(&h), "mn-search-matrix", "search returned seed {s} with a matrix that is not what run({s}) produces ({})", if own.is_ok() { "different matrix" } else { "that seed fails" });
            mn_validate(case, &h, &format!("search -> seed {s}"))?;
        }
    }
    let mixed_range = !seq.is_empty() && (seq.len() as u64) < tries;
    p.class_if(mixed_range, "search-range-mixed");
    if mixed_range {
        p.nontrivial();
    }
    p.inner += 5 + tries;
    Ok(())
}

// ---------------------------------------------------------------------------
// PEG

#[derive(Debug, Clone, Serialize, Deserialize)]
pub struct PegCase {
    pub nrows: usize,
    pub ncols: usize,
    pub wc: usize,
    pub seed: u64,
}

fn peg_strategy(t: Tier) -> BoxedStrategy<PegCase> {
    let (maxr, maxc) = t.pick((10usize, 20usize), (16, 40));
    (1..=maxr, 1..=maxc, 1usize..=5, any::<u64>()).prop_map(|(nrows, ncols, wc, seed)| PegCase { nrows, ncols, wc, seed }).boxed()
}

fn peg_strategy_medium(_t: Tier) -> BoxedStrategy<PegCase> {
    (11usize..=48, 21usize..=120, 1usize..=4, any::<u64>()).prop_map(|(nrows, ncols, wc, seed)| PegCase { nrows, ncols, wc, seed }).boxed()
}

/// exists an order of `rows` in which each entry was a legal greedy PEG choice
fn peg_valid_order(prev: &Mat, col: usize, rows: &[usize]) -> bool {
    fn rec(h: &mut Mat, col: usize, remaining: &mut Vec<usize>) -> bool {
        if remaining.is_empty() {
            return true;
        }
        let g = Graph::from_mat(h);
        let d = g.dist(h.rows + col, None);
        let weights: Vec<usize> = h.row_lists().iter().map(|l| l.len()).collect();
        // preference: unreachable first, else farthest; then least weight
        let key = |r: usize| (d[r].unwrap_or(usize::MAX), std::cmp::Reverse(weights[r]));
        let best = (0..h.rows).map(key).max().unwrap();
        for i in 0..remaining.len() {
            let r = remaining[i];
            if key(r) == best {
                remaining.remove(i);
                h.ones.push((r, col));
                if rec(h, col, remaining) {
                    return true;
                }
                h.ones.pop();
                remaining.insert(i, r);
            }
        }
        false
    }
    let mut h = prev.clone();
    let mut rem = rows.to_vec();
    rec(&mut h, col, &mut rem)
}

fn check_peg(case: &PegCase, p: &mut Probe) -> Check {
    let conf = peg::Config { nrows: case.nrows, ncols: case.ncols, wc: case.wc };
    let r = guarded(|| conf.run(case.seed)).map_err(|e| Fail::new("peg-panic", format!("peg run panicked: {e}; {conf:?}")))?;
    let h = r.map_err(|e| Fail::new("peg-error", format!("peg run failed: {e}; {conf:?}")))?;
    let again = std::thread::scope(|s| s.spawn(|| conf.run(case.seed)).join().unwrap());
    ensure!(again.as_ref().ok() == Some(&h), "peg-determinism", "two PEG runs with seed {} differ", case.seed);
    ensure!(h.num_rows() == case.nrows && h.num_cols() == case.ncols, "peg-size", "matrix is {} x {}", h.num_rows(), h.num_cols());
    let want_w = case.wc.min(case.nrows);
    let mut prev = Mat::new(case.nrows, case.ncols);
    for c in 0..case.ncols {
        // insertion order is visible through the column iterator; any legal order is accepted
        let rows: Vec<usize> = h.iter_col(c).copied().collect();
        ensure!(rows.len() == want_w, "peg-col-weight", "column {c} has weight {}, expected min(wc, rows) = {want_w}", rows.len());
        ensure!(peg_valid_order(&prev, c, &rows), "peg-greedy", "column {c}: rows {rows:?} cannot have been placed greedily (each edge on a check unreachable from the column, else at maximal distance, and of least degree among those), given the earlier columns");
        for r in rows {
            prev.ones.push((r, c));
        }
    }
    // seed sensitivity where ties exist from the first edge on
    if case.nrows >= 4 && case.ncols >= 4 && case.wc < case.nrows {
        let mut distinct = std::collections::BTreeSet::new();
        for ds in 0..12u64 {
            if let Ok(x) = conf.run(case.seed.wrapping_add(ds)) {
                distinct.insert(Mat::from_sparse(&x).set());
            }
        }
        p.class("seed-sensitivity-checked");
        ensure!(distinct.len() >= 2, "peg-seed-insensitive", "twelve consecutive seeds give the same PEG matrix for {conf:?}");
    }
    p.class_if(case.wc > case.nrows, "wc>rows");
    if case.ncols >= 2 && want_w >= 2 {
        p.nontrivial();
    }
    Ok(())
}

/// thousands of rows (no generated configuration has more than 1100): the uniform policy on
/// 2053 x 1200 (a prime number of rows) and 4100 x 900 with column weight 3, run under rayon pools of
/// 1, 3 and 4 threads: sizes, weights, row balance, and the same matrix whatever the pool
fn mn_many_rows_cases(_t: Tier) -> Vec<u8> {
    vec![0, 1]
}

fn check_mn_many_rows(which: &u8, p: &mut Probe) -> Check {
    let (nrows, ncols) = if *which == 0 { (2053usize, 1200usize) } else { (4100, 900) };
    let case = MnCase { nrows, ncols, wr: (ncols * 3).div_ceil(nrows) + usize::from(*which), wc: 3, backtrack_cols: 0, backtrack_trials: 0, min_girth: None, girth_trials: 0, uniform: true, seed: 11 + *which as u64, search_start: 0, search_tries: 1, threads: 1 };
    let conf = case.config();
    let mut first: Option<SparseMatrix> = None;
    for threads in [1usize, 4, 3] {
        let pool = rayon::ThreadPoolBuilder::new().num_threads(threads).build().map_err(|e| Fail::new("harness", format!("cannot build rayon pool: {e}")))?;
        let r = guarded(|| pool.install(|| conf.run(case.seed))).map_err(|e| Fail::new("panic", format!("{nrows} x {ncols}, uniform policy, pool of {threads} threads: run panicked: {e}")))?;
        let h = r.map_err(|e| Fail::new("mn-failed", format!("{nrows} x {ncols}, wc 3, wr {}, uniform policy, pool of {threads} threads: run({}) failed ({e}) although the row weights leave room", case.wr, case.seed)))?;
        mn_validate(&case, &h, &format!("{nrows} x {ncols} under a pool of {threads} threads"))?;
        match &first {
            None => first = Some(h),
            Some(f) => ensure!(*f == h, "mn-determinism", "{nrows} x {ncols}, uniform policy, seed {}: the matrix built under a pool of {threads} threads differs from the one built under a pool of 1 thread", case.seed),
        }
        p.inner += 1;
    }
    p.nontrivial();
    Ok(())
}

pub fn property() -> Property {
    Property {
        id: "C16",
        subs: vec![
            Box::new(Sub {
                name: "mackay-neal",
                rule: "configurations rows 1..=12, cols 1..=24 (thorough 20 x 48; a single row / column in 5 % of the cases each), wc 0..=min(4, rows) (0 in 3 %), wr = ceil(cols*wc/rows) + {0,1,2} (occasionally one less than feasible, 0, or 'no limit' given as usize::MAX or 2^62), both fill policies (one case in 400: 2-3 rows and more than 131 000 columns of weight one under the uniform policy, row weights beyond 2^16), min girth {none, 4, 6, 8, any of 1..=11 incl. odd values, 2^40, 2^63 or usize::MAX = no cycle at all} with 0..=30 girth trials, backtracking 0..=3 columns x 0..=5 trials, any u64 seed; on success: size, every column weight = wc, every row weight <= wr, own girth >= min girth, uniform policy without girth constraint: row weights differ by <= 1; same (config, seed) twice (second run on another thread) identical; seeds s..s+3 validated too and, when all succeed in a roomy configuration, not all identical; search(start, tries<=64) under rayon pools of 1/2/4/16 threads (start also near u64::MAX - tries): Some((s,h)) has start <= s < start+tries and h == run(s), None only if the sequential oracle finds every seed failing. Non-trivial = success where a neighbouring seed fails with backtracking/girth retries configured, or a search range with mixed outcomes",
                cases: |t| t.pick(12_000, 400_000),
                strategy: mn_strategy,
                check: check_mn,
                health: &[("run-succeeded", 0.30), ("search-range-mixed", 0.06), ("backtracking-or-girth-retry-mattered", 0.015)],
            }),
            Box::new(EnumSub {
                name: "mackay-neal-many-rows",
                rule: "uniform policy, column weight 3, 2053 x 1200 and 4100 x 900, under rayon pools of 1, 4 and 3 threads: size, column weights, row weights within the maximum and differing by at most one, and the same matrix for the same seed whatever the pool",
                cases: mn_many_rows_cases,
                check: check_mn_many_rows,
                exhaustive: false,
            }),
            Box::new(Sub {
                name: "mackay-neal-medium",
                rule: "the same generator and oracle with rows up to 64 and columns up to 160 (row weights, node counts and girth-search frontiers beyond 64), search ranges of at most 8 seeds",
                cases: |t| t.pick(2_000, 40_000),
                strategy: mn_strategy_medium,
                check: check_mn,
                health: &[],
            }),
            Box::new(Sub {
                name: "peg-medium",
                rule: "the same oracle with 11..=48 rows, 21..=120 columns, wc 1..=4",
                cases: |t| t.pick(1_500, 30_000),
                strategy: peg_strategy_medium,
                check: check_peg,
                health: &[],
            }),
            Box::new(Sub {
                name: "peg",
                rule: "rows 1..=10, cols 1..=20 (thorough 16 x 40), wc 1..=5 incl. wc > rows, any seed: column weights = min(wc, rows); for every column in order there is an ordering of its entries such that each, given all earlier columns and the earlier entries of this column, lies on a check that the own BFS finds unreachable from the column (or at maximal distance if all are reachable) and of minimum weight among those (exhaustive search over orderings); determinism across threads; twelve consecutive seeds are not all identical when rows, cols >= 4 and wc < rows. Non-trivial = at least two columns of weight >= 2",
                cases: |t| t.pick(12_000, 400_000),
                strategy: peg_strategy,
                check: check_peg,
                health: &[],
            }),
        ],
        assumptions: vec![
            "start_seed + max_tries is kept below 2^64 by construction (the range would overflow otherwise)".into(),
            "seed sensitivity is a metamorphic check: only 'not all of several seeds coincide' is demanded".into(),
        ],
    }
}
