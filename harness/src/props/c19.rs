//! C19 — the C interface is a faithful wrapper of the Rust encoder and decoder.
//! The exported symbols are called through extern "C" declarations written from
//! include/ldpc_toolbox.h; every case runs in a child process because a panic
//! inside an extern "C" function aborts the process.

use super::child::*;
use super::decgen::*;
use super::impls::NAMES;
use crate::common::*;
use crate::engine::*;
use ldpc_toolbox::decoder::factory::{DecoderFactory, DecoderImplementation};
use ldpc_toolbox::encoder::Encoder;
use ldpc_toolbox::gf2::GF2;
use ldpc_toolbox::simulation::puncturing::Puncturer;
use ndarray::Array1;
use num_traits::{One, Zero};
use proptest::prelude::*;
use serde::{Deserialize, Serialize};
use serde_json::json;
use std::ffi::{CString, c_char, c_void};
use std::time::Duration;

unsafe extern "C" {
    fn ldpc_toolbox_decoder_ctor(alist_file_path: *const c_char, implementation: *const c_char, puncturing: *const c_char) -> *mut c_void;
    fn ldpc_toolbox_decoder_ctor_alist_string(alist: *const c_char, implementation: *const c_char, puncturing: *const c_char) -> *mut c_void;
    fn ldpc_toolbox_decoder_dtor(decoder: *mut c_void);
    fn ldpc_toolbox_decoder_decode_f64(decoder: *mut c_void, output: *mut u8, output_len: usize, llrs: *const f64, llrs_len: usize, max_iterations: u32) -> i32;
    fn ldpc_toolbox_decoder_decode_f32(decoder: *mut c_void, output: *mut u8, output_len: usize, llrs: *const f32, llrs_len: usize, max_iterations: u32) -> i32;
    fn ldpc_toolbox_encoder_ctor(alist_file_path: *const c_char, puncturing: *const c_char) -> *mut c_void;
    fn ldpc_toolbox_encoder_ctor_alist_string(alist: *const c_char, puncturing: *const c_char) -> *mut c_void;
    fn ldpc_toolbox_encoder_dtor(encoder: *mut c_void);
    fn ldpc_toolbox_encoder_encode(encoder: *mut c_void, output: *mut u8, output_len: usize, input: *const u8, input_len: usize);
}

#[derive(Debug, Clone, Serialize, Deserialize)]
pub struct DecCall {
    /// LLRs of the punctured length
    pub llrs: Vec<Fx>,
    pub as_f32: bool,
    pub output_len: usize,
    pub limit: u32,
}

#[derive(Debug, Clone, Serialize, Deserialize)]
pub enum Case {
    Decoder { h: Mat, padded: bool, imp: String, pattern: Option<Vec<bool>>, via_file: bool, calls: Vec<DecCall> },
    Encoder { h: Mat, padded: bool, pattern: Option<Vec<bool>>, via_file: bool, messages: Vec<Vec<u8>> },
    /// constructor that must return null
    BadDecoder { alist: String, imp: String, pattern: String, via_file: u8 },
    BadEncoder { alist: String, pattern: String, via_file: u8 },
    /// implementation name or pattern given as bytes that are not valid UTF-8 (a C caller can pass any
    /// NUL-terminated byte string): not a name, not a pattern, so the constructor must return null
    BadBytes { alist: String, imp: Vec<u8>, pattern: Vec<u8>, encoder: bool, via_file: bool },
    /// one path, three constructor calls: the file holds H1, then is overwritten with H2, then is deleted
    FileReuse { h1: Mat, h2: Mat, imp: String, llrs2: Vec<Fx>, limit: u32 },
}

fn pattern_string(p: &Option<Vec<bool>>) -> String {
    match p {
        None => String::new(),
        Some(v) => v.iter().map(|&b| if b { "1" } else { "0" }).collect::<Vec<_>>().join(","),
    }
}

/// pattern whose length divides n, with at least one kept block
fn pattern_for(n: usize) -> BoxedStrategy<Option<Vec<bool>>> {
    let divisors: Vec<usize> = (1..=n.min(12)).filter(|d| n % d == 0).collect();
    prop_oneof![
        2 => Just(None),
        3 => (proptest::sample::select(divisors), proptest::collection::vec(any::<bool>(), 12), any::<u16>()).prop_map(|(len, bits, a)| {
            let mut v: Vec<bool> = bits[..len].to_vec();
            if !v.iter().any(|&b| b) {
                let i = idx(a, len);
                v[i] = true;
            }
            Some(v)
        }),
    ]
    .boxed()
}

fn decoder_case() -> BoxedStrategy<Case> {
    // mostly up to 14 columns; a fifth up to 36, so that patterns of 7, 9, 11 and 12 blocks occur with
    // several block sizes (ratios of pattern length to kept blocks that are inexact in floating point)
    // one case in 26: 250..=330 columns (lengths and indices beyond one byte)
    prop_oneof![20 => decoder_matrix(8, 14).boxed(), 5 => decoder_matrix(8, 36).boxed(), 1 => decoder_matrix_range(6, 250, 330).boxed()]
        .prop_flat_map(|h| {
            let n = h.cols;
            let hh = h.clone();
            (Just(h), pattern_for(n), 0..36usize, any::<bool>(), any::<bool>()).prop_flat_map(move |(h, pattern, imp, padded, via_file)| {
                let kept = pattern.as_ref().map_or(n, |p| n / p.len() * p.iter().filter(|&&b| b).count());
                let pat = pattern.clone();
                let full = llr_vector(&hh);
                let call = (full, any::<bool>(), 0..=n, prop_oneof![4 => Just(0u32), 6 => 1u32..=4, 4 => 5u32..=30, 1 => prop_oneof![Just(1_000_000u32), Just(i32::MAX as u32), Just(i32::MAX as u32 + 1), Just(u32::MAX)]], any::<bool>(), prop_oneof![11 => Just(0u8), 1 => 1u8..=6], any::<u16>()).prop_map(move |(mut llrs, as_f32, output_len, limit, full_out, nonfinite, at)| {
                    // one call in twelve carries infinite or NaN LLRs (certain bits, possibly contradicting
                    // each other; undefined samples): the wrapper must hand them to the decoder untouched
                    if nonfinite != 0 && !llrs.is_empty() {
                        let i = idx(at, llrs.len());
                        let j = (i + 1) % llrs.len();
                        match nonfinite {
                            1 => llrs[i] = f64::INFINITY,
                            2 => llrs[i] = f64::NEG_INFINITY,
                            3 => llrs[i] = f64::NAN,
                            4 => {
                                llrs[i] = f64::INFINITY;
                                llrs[j] = f64::NEG_INFINITY;
                            }
                            5 => {
                                llrs[i] = f64::INFINITY;
                                llrs[j] = f64::INFINITY;
                            }
                            _ => llrs.iter_mut().enumerate().for_each(|(t, x)| *x = if (t + i) % 3 == 0 { f64::NEG_INFINITY } else { f64::INFINITY }),
                        }
                    }
                    // keep the LLRs of the transmitted blocks only
                    let kept_llrs: Vec<f64> = match &pat {
                        None => llrs,
                        Some(p) => {
                            let bs = llrs.len() / p.len();
                            (0..llrs.len()).filter(|&i| p[i / bs]).map(|i| llrs[i]).collect()
                        }
                    };
                    // f32 calls use values that survive the narrowing (the wrapper receives the f32 buffer)
                    let kept_llrs: Vec<f64> = if as_f32 { kept_llrs.iter().map(|&x| if x.is_finite() { x.clamp(-3e38, 3e38) as f32 as f64 } else { x }).collect() } else { kept_llrs };
                    DecCall { llrs: kept_llrs.into_iter().map(Fx).collect(), as_f32, output_len: if full_out { usize::MAX } else { output_len }, limit }
                });
                let _ = kept;
                (Just(h), Just(pattern), Just(imp), Just(padded), Just(via_file), proptest::collection::vec(call, 1..=8))
            })
        })
        .prop_map(|(h, pattern, imp, padded, via_file, mut calls)| {
            let n = h.cols;
            for c in calls.iter_mut() {
                if c.output_len == usize::MAX {
                    c.output_len = n;
                }
            }
            Case::Decoder { h, padded, imp: NAMES[imp].to_string(), pattern, via_file, calls }
        })
        .boxed()
}

fn encoder_case() -> BoxedStrategy<Case> {
    (prop_oneof![20 => super::c02::strategy(12), 5 => super::c02::strategy(36), 1 => super::c02::large_strategy(Tier::Quick)], any::<bool>(), any::<bool>())
        .prop_flat_map(|(c, padded, via_file)| {
            let n = c.h.cols;
            let k = n - c.h.rows;
            (Just(c.h), pattern_for(n), Just(padded), Just(via_file), proptest::collection::vec(proptest::collection::vec(0u8..=1, k), 1..=4))
        })
        .prop_map(|(h, pattern, padded, via_file, messages)| Case::Encoder { h, padded, pattern, via_file, messages })
        .boxed()
}

fn bad_pattern() -> impl Strategy<Value = String> {
    // malformed under any reading of "comma-separated 0/1 list": a symbol that is neither 0, 1, comma
    // nor white space, or no 0/1 at all. (Spellings that differ from a well-formed list only in white
    // space or empty elements - "1,0,", "1 ,0", "01" - are refused today, but a more tolerant parser
    // would not make them malformed; they are not judged.)
    prop_oneof![Just("1,2".to_string()), Just("a".to_string()), Just("1;0".to_string()), Just("true".to_string()), Just("x".to_string()), Just("2".to_string()), Just("1,0,x".to_string()), Just("-1".to_string()), Just(",".to_string()), Just(",,".to_string()), "[01,x ]{1,6}".prop_filter("must be malformed", |s| s.contains('x'))]
}

fn bad_case() -> BoxedStrategy<Case> {
    let good_alist = || super::c08::matrix_strategy(6).prop_map(|m| own_alist(&m, true));
    let bad_alist = || {
        super::c08::text_strategy(Tier::Quick).prop_map(|t| super::c08::render(&t)).prop_filter("must be rejected by the Rust parser or be out of the C string domain", |s| !s.contains('\0') && super::c08::moderate_decl(s) && std::panic::catch_unwind(|| ldpc_toolbox::sparse::SparseMatrix::from_alist(s).is_err()).unwrap_or(true))
    };
    let name = || (0..36usize).prop_map(|i| NAMES[i].to_string());
    let bad_name = || prop_oneof![Just(String::new()), name().prop_map(|s| s.to_lowercase()), name().prop_map(|s| format!("{s} ")), name().prop_map(|s| format!("HL{s}")), "[A-Za-z0-9]{1,10}"].prop_filter("non-member", |s| !NAMES.contains(&s.as_str()));
    prop_oneof![
        // malformed alist text
        3 => (bad_alist(), name(), 0..2u8).prop_map(|(alist, imp, via_file)| Case::BadDecoder { alist, imp, pattern: String::new(), via_file }),
        // unknown implementation
        2 => (good_alist(), bad_name(), 0..2u8).prop_map(|(alist, imp, via_file)| Case::BadDecoder { alist, imp, pattern: String::new(), via_file }),
        // malformed pattern
        2 => (good_alist(), name(), bad_pattern(), 0..2u8).prop_map(|(alist, imp, pattern, via_file)| Case::BadDecoder { alist, imp, pattern, via_file }),
        // missing file / directory instead of a file
        1 => (good_alist(), name(), 2..4u8).prop_map(|(alist, imp, via_file)| Case::BadDecoder { alist, imp, pattern: String::new(), via_file }),
        2 => (bad_alist(), 0..2u8).prop_map(|(alist, via_file)| Case::BadEncoder { alist, pattern: String::new(), via_file }),
        1 => (good_alist(), 2..4u8).prop_map(|(alist, via_file)| Case::BadEncoder { alist, pattern: String::new(), via_file }),
        // byte strings that are not valid UTF-8 in the name or in the pattern
        2 => (good_alist(), name(), prop_oneof![Just("".to_string()), Just("1".to_string()), Just("1,0".to_string()), Just("1,1,0".to_string())], prop_oneof![Just(vec![0xffu8]), Just(vec![0xc3u8]), Just(vec![0xe9u8]), Just(vec![0xf0u8, 0x9f]), Just(vec![0x80u8]), Just(vec![0xc0u8, 0xaf])], any::<u16>(), 0..3u8, any::<bool>(), any::<bool>())
            .prop_map(|(alist, imp, pat, bad, at, target, encoder, via_file)| {
                let splice = |s: &str| -> Vec<u8> {
                    let mut b = s.as_bytes().to_vec();
                    // insert at a character boundary of the ASCII string
                    let i = idx(at, b.len() + 1);
                    for (k, x) in bad.iter().enumerate() {
                        b.insert(i + k, *x);
                    }
                    b
                };
                // target 0: name only, 1: pattern only, 2: both (the encoder has no name: pattern always)
                let (imp_b, pat_b) = match (target, encoder) {
                    (0, false) => (splice(&imp), pat.as_bytes().to_vec()),
                    (1, _) | (0, true) => (imp.as_bytes().to_vec(), splice(&pat)),
                    _ => (splice(&imp), splice(&pat)),
                };
                Case::BadBytes { alist, imp: imp_b, pattern: pat_b, encoder, via_file }
            }),
        // encoder: valid alist, singular last columns
        2 => (super::c02::strategy(8).prop_filter("singular tail", |c| { let n = c.h.cols; let r = c.h.rows; c.h.to_bits().submatrix_cols(n - r, n).rank() < r }), 0..2u8).prop_map(|(c, via_file)| Case::BadEncoder { alist: own_alist(&c.h, false), pattern: String::new(), via_file }),
        1 => (super::c02::strategy(8).prop_filter("invertible tail", |c| { let n = c.h.cols; let r = c.h.rows; c.h.to_bits().submatrix_cols(n - r, n).rank() == r }), bad_pattern(), 0..2u8).prop_map(|(c, pattern, via_file)| Case::BadEncoder { alist: own_alist(&c.h, true), pattern, via_file }),
    ]
    .boxed()
}

fn file_reuse_case() -> BoxedStrategy<Case> {
    (decoder_matrix(6, 12), decoder_matrix(6, 12), 0..36usize, 0u32..=5)
        .prop_flat_map(|(h1, h2, imp, limit)| {
            let l = llr_vector(&h2);
            (Just(h1), Just(h2), Just(imp), l, Just(limit))
        })
        .prop_map(|(h1, h2, imp, llrs2, limit)| Case::FileReuse { h1, h2, imp: NAMES[imp].to_string(), llrs2: llrs2.into_iter().map(Fx).collect(), limit })
        .boxed()
}

fn strategy(_t: Tier) -> BoxedStrategy<Case> {
    prop_oneof![10 => decoder_case(), 4 => encoder_case(), 6 => bad_case(), 1 => file_reuse_case()].boxed()
}

// ---------------------------------------------------------------------------
// parent

fn check(case: &Case, p: &mut Probe) -> Check {
    let res = run_child("c19", &serde_json::to_value(case).unwrap(), Duration::from_secs(60));
    let v = match res {
        ChildResult::Exited(0, Some(v), _) => v,
        ChildResult::Exited(code, v, err) => return Err(Fail::new("child-crash", format!("child exited with status {code} (output {v:?}); stderr: {err}"))),
        ChildResult::Signalled(err) => return Err(Fail::new("abort", format!("the process was killed by a signal while inside the C interface (a panic inside an extern \"C\" function aborts); stderr: {err}"))),
        ChildResult::TimedOut(_, err) => return Err(Fail::new(INCONCLUSIVE, format!("child exceeded the 60 s watchdog; stderr: {err}"))),
    };
    match case {
        Case::Decoder { calls, .. } => {
            p.class("decoder-handle");
            p.class_if(calls.len() >= 3 && calls.iter().any(|c| c.limit == 0), "calls>=3-with-limit-0");
            p.class_if(calls.iter().any(|c| c.as_f32), "f32-call");
            p.inner += calls.len() as u64;
            if calls.len() >= 2 {
                p.nontrivial();
            }
        }
        Case::Encoder { pattern, .. } => {
            p.class("encoder-handle");
            if pattern.is_some() {
                p.nontrivial();
            }
        }
        _ => {
            p.class("failing-constructor");
            p.nontrivial();
        }
    }
    match v["status"].as_str() {
        Some("ok") => Ok(()),
        Some("violation") => Err(Fail::new(v["key"].as_str().unwrap_or("violation"), v["msg"].as_str().unwrap_or("").to_string())),
        _ => Err(Fail::new("child-output", format!("unintelligible child output {v}"))),
    }
}

// ---------------------------------------------------------------------------
// child

fn scratch_file(tag: &str) -> std::path::PathBuf {
    let dir = std::path::PathBuf::from(std::env::var("VERIF_SCRATCH").unwrap_or_else(|_| format!("{}/target/tmp", std::env::var("VERIF_DIR").unwrap_or_else(|_| "/verif".into()))));
    let _ = std::fs::create_dir_all(&dir);
    dir.join(format!("c19-{}-{tag}.alist", std::process::id()))
}

/// the alist text as a regular file, or (a quarter of the texts) as a named pipe fed in two pieces
fn provide_file(path: &std::path::Path, text: &str) -> Check {
    write_file_or_pipe(path, text, text.len() % 4 == 1).map_err(|e| Fail::new(INCONCLUSIVE, format!("cannot write scratch file: {e}")))
}

fn cstr(s: &str) -> CString {
    CString::new(s.as_bytes()).unwrap_or_else(|_| CString::new("nul-inside").unwrap())
}

pub fn child_main() -> ! {
    let case: Case = match serde_json::from_value(read_stdin_json()) {
        Ok(c) => c,
        Err(e) => {
            println!("{}", json!({"status": "violation", "key": "harness", "msg": format!("bad case: {e}")}));
            std::process::exit(0);
        }
    };
    let verdict = match run_case(&case) {
        Ok(()) => json!({"status": "ok"}),
        Err(f) => json!({"status": "violation", "key": f.key, "msg": f.msg}),
    };
    println!("{verdict}");
    std::process::exit(0);
}

fn run_case(case: &Case) -> Check {
    match case {
        Case::Decoder { h, padded, imp, pattern, via_file, calls } => {
            let text = own_alist(h, *padded);
            let pat = pattern_string(pattern);
            let (ci, cp) = (cstr(imp), cstr(&pat));
            let file = scratch_file("d");
            // a third of the cases: another decoder handle, built from the same alist text and name with
            // another pattern, is alive (and has decoded a frame) while this one is built and used
            let companion = if calls.len() % 3 == 0 {
                let n = h.cols;
                let other = match pattern {
                    Some(_) => String::new(),
                    None => {
                        let d = (2..=n.min(12)).find(|d| n % d == 0).unwrap_or(1);
                        let mut v = vec!["1"; d];
                        if d >= 2 {
                            v[0] = "0";
                        }
                        v.join(",")
                    }
                };
                let kept = if other.is_empty() { n } else { n / other.split(',').count() * other.split(',').filter(|t| *t == "1").count() };
                let (ct, co) = (cstr(&text), cstr(&other));
                let c = unsafe { ldpc_toolbox_decoder_ctor_alist_string(ct.as_ptr(), ci.as_ptr(), co.as_ptr()) };
                if !c.is_null() {
                    let l: Vec<f64> = (0..kept).map(|i| if i % 3 == 0 { -1.5 } else { 2.25 }).collect();
                    let mut o = vec![0u8; n];
                    unsafe { ldpc_toolbox_decoder_decode_f64(c, o.as_mut_ptr(), n, l.as_ptr(), l.len(), 3) };
                }
                c
            } else {
                std::ptr::null_mut()
            };
            let handle = unsafe {
                if *via_file {
                    provide_file(&file, &text)?;
                    let cf = cstr(file.to_str().unwrap());
                    let r = ldpc_toolbox_decoder_ctor(cf.as_ptr(), ci.as_ptr(), cp.as_ptr());
                    let _ = std::fs::remove_file(&file);
                    r
                } else {
                    let ct = cstr(&text);
                    ldpc_toolbox_decoder_ctor_alist_string(ct.as_ptr(), ci.as_ptr(), cp.as_ptr())
                }
            };
            if handle.is_null() {
                return Err(Fail::new("ctor-null", format!("decoder constructor returned null for a valid alist, implementation {imp:?} and pattern {pat:?}")));
            }
            let n = h.cols;
            let imp_rust: DecoderImplementation = imp.parse().map_err(|e| Fail::new("harness", format!("{imp}: {e}")))?;
            let punct = pattern.as_ref().map(|p| Puncturer::new(p));
            for (i, c) in calls.iter().enumerate() {
                let llrs = fx_vec(&c.llrs);
                // reference input: the depunctured LLRs (f32 input behaves as its widening)
                let wide: Vec<f64> = if c.as_f32 { llrs.iter().map(|&x| x as f32 as f64).collect() } else { llrs.clone() };
                let full = match &punct {
                    Some(p) => p.depuncture(&wide).map_err(|e| Fail::new("harness", format!("depuncture: {e}")))?,
                    None => wide,
                };
                if full.len() != n {
                    return Err(Fail::new("harness", format!("generated LLR length {} does not depuncture to n = {n}", llrs.len())));
                }
                // same construction path as the wrapper: the matrix parsed from the alist text
                // (the internal entry order, which order-sensitive arithmetics see, follows the text)
                let parsed = ldpc_toolbox::sparse::SparseMatrix::from_alist(&text).map_err(|e| Fail::new("harness", format!("own alist rejected: {e}")))?;
                // very large limits ("no limit"): only meaningful when the frame converges, which a
                // fresh Rust decoder with a limit of 64 decides first (a frame that does not converge
                // would keep both sides busy for 2^31 iterations)
                let mut limit = c.limit;
                if limit > 1000 {
                    let mut probe = imp_rust.build_decoder(parsed.clone());
                    if !matches!(std::panic::catch_unwind(std::panic::AssertUnwindSafe(|| probe.decode(&full, 64))), Ok(Ok(_))) {
                        limit = 64;
                    }
                }
                // the reference first: a frame on which the Rust decoder itself panics (possible with
                // non-finite LLRs) has no defined outcome and is not sent through the C interface
                let want = {
                    let mut fresh = imp_rust.build_decoder(parsed.clone());
                    match std::panic::catch_unwind(std::panic::AssertUnwindSafe(|| fresh.decode(&full, limit as usize))) {
                        Ok(w) => w,
                        Err(_) => continue,
                    }
                };
                let mut out = vec![0xEEu8; c.output_len + 4]; // guard bytes behind the buffer
                let ret = unsafe {
                    if c.as_f32 {
                        let l32: Vec<f32> = llrs.iter().map(|&x| x as f32).collect();
                        ldpc_toolbox_decoder_decode_f32(handle, out.as_mut_ptr(), c.output_len, l32.as_ptr(), l32.len(), limit)
                    } else {
                        ldpc_toolbox_decoder_decode_f64(handle, out.as_mut_ptr(), c.output_len, llrs.as_ptr(), llrs.len(), limit)
                    }
                };
                let (want_ret, want_word) = match &want {
                    Ok(o) => (o.iterations as i32, &o.codeword),
                    Err(o) => (-1, &o.codeword),
                };
                if ret != want_ret {
                    unsafe { ldpc_toolbox_decoder_dtor(handle) };
                    return Err(Fail::new("return-value", format!("{imp}: call {i} ({}, limit {}) returned {ret}, the Rust decoder gives {want_ret} (iterations on success, -1 on failure)", if c.as_f32 { "f32" } else { "f64" }, limit)));
                }
                if out[..c.output_len] != want_word[..c.output_len] {
                    unsafe { ldpc_toolbox_decoder_dtor(handle) };
                    return Err(Fail::new("output-bits", format!("{imp}: call {i} ({}, limit {}, output_len {}) wrote {:?}, the leading bits of the Rust decoder's word are {:?}", if c.as_f32 { "f32" } else { "f64" }, c.limit, c.output_len, &out[..c.output_len], &want_word[..c.output_len])));
                }
                if out[c.output_len..].iter().any(|&b| b != 0xEE) {
                    return Err(Fail::new("buffer-overrun", format!("{imp}: call {i} wrote past output_len = {}", c.output_len)));
                }
            }
            unsafe { ldpc_toolbox_decoder_dtor(handle) };
            if !companion.is_null() {
                unsafe { ldpc_toolbox_decoder_dtor(companion) };
            }
            Ok(())
        }
        Case::Encoder { h, padded, pattern, via_file, messages } => {
            let text = own_alist(h, *padded);
            let pat = pattern_string(pattern);
            let cp = cstr(&pat);
            let file = scratch_file("e");
            let hs = h.to_sparse();
            let reference = Encoder::from_h(&hs);
            // half of the cases: another encoder handle, built from the same alist text with another
            // pattern, is alive while this one is built and used (handles share nothing)
            let companion = if messages.len() % 2 == 0 {
                let other = match pattern {
                    Some(_) => String::new(),
                    None => {
                        let n = h.cols;
                        let d = (2..=n.min(12)).find(|d| n % d == 0).unwrap_or(1);
                        let mut v = vec!["1"; d];
                        if d >= 2 {
                            v[d - 1] = "0";
                        }
                        v.join(",")
                    }
                };
                let (ct, co) = (cstr(&text), cstr(&other));
                unsafe { ldpc_toolbox_encoder_ctor_alist_string(ct.as_ptr(), co.as_ptr()) }
            } else {
                std::ptr::null_mut()
            };
            let handle = unsafe {
                if *via_file {
                    provide_file(&file, &text)?;
                    let cf = cstr(file.to_str().unwrap());
                    let r = ldpc_toolbox_encoder_ctor(cf.as_ptr(), cp.as_ptr());
                    let _ = std::fs::remove_file(&file);
                    r
                } else {
                    let ct = cstr(&text);
                    ldpc_toolbox_encoder_ctor_alist_string(ct.as_ptr(), cp.as_ptr())
                }
            };
            let Ok(enc) = reference else {
                if !handle.is_null() {
                    unsafe { ldpc_toolbox_encoder_dtor(handle) };
                    return Err(Fail::new("ctor-not-null", "encoder constructor returned a handle although the last columns are singular".to_string()));
                }
                return Ok(());
            };
            if handle.is_null() {
                return Err(Fail::new("ctor-null", format!("encoder constructor returned null for a valid systematic matrix and pattern {pat:?}")));
            }
            if !companion.is_null() {
                // with both handles alive: the same text with a malformed pattern is still refused
                let (ct, cb) = (cstr(&text), cstr("1,x"));
                let bad = unsafe { ldpc_toolbox_encoder_ctor_alist_string(ct.as_ptr(), cb.as_ptr()) };
                if !bad.is_null() {
                    return Err(Fail::new("ctor-not-null", "encoder constructor returned a handle for the pattern \"1,x\" while other handles built from the same alist text were alive".to_string()));
                }
            }
            let punct = pattern.as_ref().map(|p| Puncturer::new(p));
            for (i, m) in messages.iter().enumerate() {
                let cw = enc.encode(&Array1::from_iter(m.iter().map(|&b| if b == 1 { GF2::one() } else { GF2::zero() })));
                let cw = match &punct {
                    Some(p) => p.puncture(&cw).map_err(|e| Fail::new("harness", format!("puncture: {e}")))?,
                    None => cw,
                };
                let want: Vec<u8> = cw.iter().map(|x| u8::from(x.is_one())).collect();
                let mut out = vec![0xEEu8; want.len() + 4];
                unsafe { ldpc_toolbox_encoder_encode(handle, out.as_mut_ptr(), want.len(), m.as_ptr(), m.len()) };
                if out[..want.len()] != want[..] {
                    unsafe { ldpc_toolbox_encoder_dtor(handle) };
                    return Err(Fail::new("encoder-output", format!("message {i}: the C encoder wrote {:?}, the punctured systematic codeword of the Rust encoder is {want:?}", &out[..want.len()])));
                }
                if out[want.len()..].iter().any(|&b| b != 0xEE) {
                    return Err(Fail::new("buffer-overrun", format!("message {i}: the C encoder wrote past output_len")));
                }
            }
            unsafe { ldpc_toolbox_encoder_dtor(handle) };
            if !companion.is_null() {
                unsafe { ldpc_toolbox_encoder_dtor(companion) };
            }
            Ok(())
        }
        Case::BadDecoder { alist, imp, pattern, via_file } => {
            let (ci, cp) = (cstr(imp), cstr(pattern));
            let file = scratch_file("bd");
            let handle = unsafe {
                match via_file {
                    0 => {
                        let ct = cstr(alist);
                        ldpc_toolbox_decoder_ctor_alist_string(ct.as_ptr(), ci.as_ptr(), cp.as_ptr())
                    }
                    1 => {
                        let _ = std::fs::write(&file, alist);
                        let cf = cstr(file.to_str().unwrap());
                        let r = ldpc_toolbox_decoder_ctor(cf.as_ptr(), ci.as_ptr(), cp.as_ptr());
                        let _ = std::fs::remove_file(&file);
                        r
                    }
                    2 => {
                        let cf = cstr(file.with_extension("does-not-exist").to_str().unwrap());
                        ldpc_toolbox_decoder_ctor(cf.as_ptr(), ci.as_ptr(), cp.as_ptr())
                    }
                    _ => {
                        let cf = cstr(file.parent().unwrap().to_str().unwrap()); // a directory
                        ldpc_toolbox_decoder_ctor(cf.as_ptr(), ci.as_ptr(), cp.as_ptr())
                    }
                }
            };
            if !handle.is_null() {
                unsafe { ldpc_toolbox_decoder_dtor(handle) };
                return Err(Fail::new("ctor-not-null", format!("decoder constructor returned a handle for alist {alist:?} / implementation {imp:?} / pattern {pattern:?} / source kind {via_file}")));
            }
            Ok(())
        }
        Case::FileReuse { h1, h2, imp, llrs2, limit } => {
            let ci = cstr(imp);
            let cp = cstr("");
            let file = scratch_file("fr");
            let cf = cstr(file.to_str().unwrap());
            let imp_rust: DecoderImplementation = imp.parse().map_err(|e| Fail::new("harness", format!("{imp}: {e}")))?;
            // 1. the file holds H1
            std::fs::write(&file, own_alist(h1, true)).map_err(|e| Fail::new(INCONCLUSIVE, format!("cannot write scratch file: {e}")))?;
            let a = unsafe { ldpc_toolbox_decoder_ctor(cf.as_ptr(), ci.as_ptr(), cp.as_ptr()) };
            if a.is_null() {
                let _ = std::fs::remove_file(&file);
                return Err(Fail::new("ctor-null", format!("decoder constructor returned null for a valid alist file ({imp})")));
            }
            unsafe { ldpc_toolbox_decoder_dtor(a) };
            // 2. the same path now holds H2
            let text2 = own_alist(h2, false);
            std::fs::write(&file, &text2).map_err(|e| Fail::new(INCONCLUSIVE, format!("cannot write scratch file: {e}")))?;
            let b = unsafe { ldpc_toolbox_decoder_ctor(cf.as_ptr(), ci.as_ptr(), cp.as_ptr()) };
            if b.is_null() {
                let _ = std::fs::remove_file(&file);
                return Err(Fail::new("ctor-null", format!("decoder constructor returned null for a valid alist file that replaced another one at the same path ({imp})")));
            }
            let llrs = fx_vec(llrs2);
            let n2 = h2.cols;
            let mut out = vec![0xEEu8; n2 + 4];
            let ret = unsafe { ldpc_toolbox_decoder_decode_f64(b, out.as_mut_ptr(), n2, llrs.as_ptr(), llrs.len(), *limit) };
            unsafe { ldpc_toolbox_decoder_dtor(b) };
            let parsed = ldpc_toolbox::sparse::SparseMatrix::from_alist(&text2).map_err(|e| Fail::new("harness", format!("own alist rejected: {e}")))?;
            let want = imp_rust.build_decoder(parsed).decode(&llrs, *limit as usize);
            let (want_ret, want_word) = match &want {
                Ok(o) => (o.iterations as i32, &o.codeword),
                Err(o) => (-1, &o.codeword),
            };
            let _ = std::fs::remove_file(&file);
            if ret != want_ret || out[..n2] != want_word[..] {
                return Err(Fail::new("file-reuse", format!("{imp}: after the alist file at one path was replaced by another matrix ({} x {} instead of {} x {}), the handle built from that path returned {ret} / {:?}, the Rust decoder of the new matrix gives {want_ret} / {want_word:?}", h2.rows, h2.cols, h1.rows, h1.cols, &out[..n2])));
            }
            // 3. the file is gone
            let c = unsafe { ldpc_toolbox_decoder_ctor(cf.as_ptr(), ci.as_ptr(), cp.as_ptr()) };
            if !c.is_null() {
                unsafe { ldpc_toolbox_decoder_dtor(c) };
                return Err(Fail::new("ctor-not-null", format!("decoder constructor returned a handle for a path whose file has been deleted ({imp})")));
            }
            Ok(())
        }
        Case::BadBytes { alist, imp, pattern, encoder, via_file } => {
            let ci = CString::new(imp.clone()).map_err(|_| Fail::new("harness", "NUL in generated bytes".to_string()))?;
            let cp = CString::new(pattern.clone()).map_err(|_| Fail::new("harness", "NUL in generated bytes".to_string()))?;
            let file = scratch_file("bb");
            let null = unsafe {
                if *via_file {
                    let _ = std::fs::write(&file, alist);
                    let cf = cstr(file.to_str().unwrap());
                    let r = if *encoder {
                        let h = ldpc_toolbox_encoder_ctor(cf.as_ptr(), cp.as_ptr());
                        let n = h.is_null();
                        if !n {
                            ldpc_toolbox_encoder_dtor(h);
                        }
                        n
                    } else {
                        let h = ldpc_toolbox_decoder_ctor(cf.as_ptr(), ci.as_ptr(), cp.as_ptr());
                        let n = h.is_null();
                        if !n {
                            ldpc_toolbox_decoder_dtor(h);
                        }
                        n
                    };
                    let _ = std::fs::remove_file(&file);
                    r
                } else {
                    let ct = cstr(alist);
                    if *encoder {
                        let h = ldpc_toolbox_encoder_ctor_alist_string(ct.as_ptr(), cp.as_ptr());
                        let n = h.is_null();
                        if !n {
                            ldpc_toolbox_encoder_dtor(h);
                        }
                        n
                    } else {
                        let h = ldpc_toolbox_decoder_ctor_alist_string(ct.as_ptr(), ci.as_ptr(), cp.as_ptr());
                        let n = h.is_null();
                        if !n {
                            ldpc_toolbox_decoder_dtor(h);
                        }
                        n
                    }
                }
            };
            // (for the encoder a null can also come from a singular tail of the generated matrix, which is fine)
            if !null {
                return Err(Fail::new("ctor-not-null", format!("{} constructor returned a handle although the implementation name {:?} / pattern {:?} is not valid UTF-8 (so neither a name nor a pattern)", if *encoder { "encoder" } else { "decoder" }, String::from_utf8_lossy(imp), String::from_utf8_lossy(pattern))));
            }
            Ok(())
        }
        Case::BadEncoder { alist, pattern, via_file } => {
            let cp = cstr(pattern);
            let file = scratch_file("be");
            let handle = unsafe {
                match via_file {
                    0 => {
                        let ct = cstr(alist);
                        ldpc_toolbox_encoder_ctor_alist_string(ct.as_ptr(), cp.as_ptr())
                    }
                    1 => {
                        let _ = std::fs::write(&file, alist);
                        let cf = cstr(file.to_str().unwrap());
                        let r = ldpc_toolbox_encoder_ctor(cf.as_ptr(), cp.as_ptr());
                        let _ = std::fs::remove_file(&file);
                        r
                    }
                    2 => {
                        let cf = cstr(file.with_extension("does-not-exist").to_str().unwrap());
                        ldpc_toolbox_encoder_ctor(cf.as_ptr(), cp.as_ptr())
                    }
                    _ => {
                        let cf = cstr(file.parent().unwrap().to_str().unwrap());
                        ldpc_toolbox_encoder_ctor(cf.as_ptr(), cp.as_ptr())
                    }
                }
            };
            if !handle.is_null() {
                unsafe { ldpc_toolbox_encoder_dtor(handle) };
                return Err(Fail::new("ctor-not-null", format!("encoder constructor returned a handle for alist {alist:?} / pattern {pattern:?} / source kind {via_file}")));
            }
            Ok(())
        }
    }
}

/// decoder handles on a code longer than 2^16 bits (the synthetic 70 600-bit staircase code of the
/// real-code checks): lengths, buffers and copies beyond 16 bits
fn wide_cases(_t: Tier) -> Vec<Case> {
    let rc = super::realcodes::code(4);
    let h = Mat::from_sparse(&rc.h());
    let n = rc.n;
    let word = &rc.codewords[1 % rc.codewords.len()];
    // a noisy version of a codeword: a handful of weak wrong bits spread over the frame, the last ones beyond position 65536
    let frame = |salt: usize| -> Vec<Fx> {
        (0..n)
            .map(|i| {
                let s = if word[i] == 1 { -1.0 } else { 1.0 };
                let wrong = i % 9973 == (7 * salt + 11) % 9973 || i == n - 3 - salt;
                Fx(if wrong { -0.4 * s } else { 3.0 * s + ((i * 31 + salt) % 7) as f64 * 0.25 })
            })
            .collect()
    };
    vec![
        Case::Decoder { h: h.clone(), padded: true, imp: "Phif64".into(), pattern: None, via_file: true, calls: vec![DecCall { llrs: frame(0), as_f32: false, output_len: n, limit: 20 }, DecCall { llrs: frame(1), as_f32: true, output_len: 65_540, limit: 0 }] },
        Case::Decoder { h, padded: false, imp: "HLMinstarapproxi8".into(), pattern: None, via_file: false, calls: vec![DecCall { llrs: frame(2), as_f32: true, output_len: n, limit: 20 }, DecCall { llrs: frame(3), as_f32: false, output_len: 65_536, limit: 3 }] },
    ]
}

pub fn property() -> Property {
    Property {
        id: "C19",
        subs: vec![Box::new(Sub {
            name: "c-api",
            rule: "each case in a child process (abort isolation). Decoder handles (a third of them built and used while another handle from the same alist text and name with another pattern is alive and has decoded a frame): alist (own writer, padded or not, as text or as a file; a quarter of the files are named pipes whose writer delivers the text in two pieces 40 ms apart) of a C01-style matrix, one of the 36 names, pattern '' or a 0/1 list with >= one 1 whose length (up to 12) divides n (n up to 14, in a fifth of the cases up to 36, one case in 26 with 250..=330 columns), then 1..=8 decode calls (f64 or f32 buffers of the punctured length, output_len in 0..=n, one call in twelve with infinite or NaN LLRs, skipped when the Rust decoder itself panics on them; limits incl. 0 and, for frames that a fresh Rust decoder converges on within 64 iterations, 10^6, 2^31-1, 2^31 and 2^32-1): return value = iterations / -1 and the output = leading bits of what a fresh Rust decoder returns for Puncturer::depuncture(llrs) (f32 widened); guard bytes behind the buffer untouched. Encoder handles (half of them built and used while another handle from the same alist text with another pattern is alive): C02-style matrices (one in 26 with 60..=140 rows or 200..=1100 message bits), pattern, 1..=4 messages: output = punctured Encoder::encode; a singular tail must give null. One path used three times (file holds H1, is overwritten with H2, is deleted): the second handle decodes as the Rust decoder of H2, the third constructor returns null. Failing constructors: malformed alist texts (C08 generator, filtered to texts the Rust parser rejects), unknown names, malformed patterns, missing file, directory instead of file, singular tail, names / patterns that are not valid UTF-8 -> null. Non-trivial = decoder handle with >= 2 calls, encoder with a pattern, or a failing constructor; inner = decode calls",
            cases: |t| t.pick(12_000, 400_000),
            strategy,
            check,
            health: &[("calls>=3-with-limit-0", 0.15), ("failing-constructor", 0.20)],
        }),
        Box::new(EnumSub {
            name: "wide-code",
            rule: "two decoder handles (Phif64 from a file, padded alist; HLMinstarapproxi8 from a string, unpadded alist) on a staircase code of 70 600 bits, two calls each (f64 and f32 buffers, output lengths n, 65 540 and 65 536, limits 20, 3 and 0) on noisy codewords whose wrong bits reach beyond position 2^16: same oracle as above",
            cases: wide_cases,
            check,
            exhaustive: false,
        })],
        assumptions: vec![
            "buffers have the lengths the header documents (LLR buffer = punctured length, encoder output = punctured codeword length); C strings contain no NUL".into(),
            "'unreadable file' is exercised as a missing path and as a directory (the sandbox runs as root, so permission bits do not make a file unreadable)".into(),
        ],
    }
}
