//! C09 — systematic conversion succeeds iff full rank and only permutes columns.

use crate::common::*;
use crate::engine::*;
use crate::ensure;
use ldpc_toolbox::encoder::Encoder;
use ldpc_toolbox::systematic::{Error, parity_to_systematic};
use proptest::prelude::*;

fn dense_bits(r: usize, n: usize) -> impl Strategy<Value = Vec<Vec<bool>>> {
    prop_oneof![
        2 => proptest::collection::vec(proptest::collection::vec(any::<bool>(), n), r),
        1 => proptest::collection::vec(proptest::collection::vec(prop::bool::weighted(0.2), n), r),
        1 => proptest::collection::vec(proptest::collection::vec(prop::bool::weighted(0.8), n), r),
    ]
}

pub fn strategy(maxdim: usize) -> BoxedStrategy<Mat> {
    let dims = prop_oneof![
        6 => (1usize..=6, 0usize..=6),
        2 => (1usize..=maxdim, Just(0usize)),
        2 => (1usize..=maxdim, 0usize..=maxdim).prop_map(move |(r, k)| (r, k.min(maxdim - r))),
    ];
    (dims, 0..8u8)
        .prop_flat_map(|((r, k), class)| {
            let n = r + k;
            let m: BoxedStrategy<Vec<Vec<bool>>> = match class {
                0 | 1 => dense_bits(r, n).boxed(),
                // full rank by construction: an invertible r x r block times [I | A], columns permuted
                2 | 3 => (dense_bits(r, n), Just((0..n).collect::<Vec<usize>>()).prop_shuffle(), dense_bits(r, r))
                    .prop_map(move |(a, perm, mix)| {
                        // start from [I | A], then add random earlier rows to later rows (keeps rank), then permute columns
                        let mut d = vec![vec![false; n]; r];
                        for i in 0..r {
                            d[i][i] = true;
                            for j in r..n {
                                d[i][j] = a[i][j];
                            }
                        }
                        for i in 0..r {
                            for j in 0..i {
                                if mix[i][j] {
                                    for c in 0..n {
                                        let v = d[j][c];
                                        d[i][c] ^= v;
                                    }
                                }
                            }
                        }
                        for i in (0..r).rev() {
                            for j in (i + 1)..r {
                                if mix[i][j] {
                                    for c in 0..n {
                                        let v = d[j][c];
                                        d[i][c] ^= v;
                                    }
                                }
                            }
                        }
                        d.iter().map(|row| perm.iter().map(|&p| row[p]).collect()).collect()
                    })
                    .boxed(),
                // rank deficient by construction
                4 => (dense_bits(r, n), any::<u16>(), any::<u16>(), any::<u16>(), 0..3u8)
                    .prop_map(move |(mut d, a, b, c, kind)| {
                        let (i, j, l) = (idx(a, r), idx(b, r), idx(c, r));
                        match kind {
                            0 if r >= 3 && i != j && j != l && i != l => {
                                let s: Vec<bool> = (0..n).map(|x| d[j][x] ^ d[l][x]).collect();
                                d[i] = s;
                            }
                            1 if r >= 2 && i != j => d[i] = d[j].clone(),
                            _ => d[i] = vec![false; n],
                        }
                        d
                    })
                    .boxed(),
                // pivots at the far right: leading zero / duplicate columns before an identity-like block
                5 => (dense_bits(r, n), 0..=k, any::<bool>())
                    .prop_map(move |(mut d, lead, dup)| {
                        for row in d.iter_mut() {
                            for c in 0..lead {
                                row[c] = if dup && c > 0 { row[0] } else { false };
                            }
                        }
                        // make the last r columns upper triangular with ones on the diagonal
                        for i in 0..r {
                            for j in 0..r {
                                d[i][k + j] = if j == i { true } else if j < i { false } else { d[i][k + j] };
                            }
                        }
                        d
                    })
                    .boxed(),
                // zero and duplicate columns sprinkled in
                6 => (dense_bits(r, n), proptest::collection::vec((any::<u16>(), any::<u16>(), any::<bool>()), 0..4))
                    .prop_map(move |(mut d, edits)| {
                        for (a, b, zero) in edits {
                            let (x, y) = (idx(a, n), idx(b, n));
                            for row in d.iter_mut() {
                                row[x] = if zero { false } else { row[y] };
                            }
                        }
                        d
                    })
                    .boxed(),
                // identity and near-identity (square when k = 0)
                _ => (dense_bits(r, n), any::<bool>())
                    .prop_map(move |(a, keep)| {
                        let mut d = vec![vec![false; n]; r];
                        for i in 0..r {
                            d[i][i] = true;
                            if keep {
                                for j in r..n {
                                    d[i][j] = a[i][j];
                                }
                            }
                        }
                        d
                    })
                    .boxed(),
            };
            (m, Just((r, n)))
        })
        .prop_flat_map(|(d, (r, n))| {
            let mut m = Mat::from_dense(&d);
            m.rows = r;
            m.cols = n;
            shuffled(Just(m))
        })
        .boxed()
}

fn regression(_t: Tier) -> Vec<Mat> {
    vec![
        // D4: any full-rank square matrix, and pivots at the far right
        Mat::from_dense(&[vec![true, false], vec![false, true]]),
        Mat::from_dense(&[vec![true]]),
        Mat::from_dense(&[vec![true, true, false, false], vec![false, false, true, false], vec![false, false, false, true]]),
        Mat::from_dense(&[vec![false, false, true], vec![false, true, true]]),
        Mat::from_dense(&[vec![false]]),
        Mat::from_dense(&[vec![false, false]]),
        Mat::from_dense(&[vec![false, true]]),
    ]
}

pub fn check(m: &Mat, p: &mut Probe) -> Check {
    let (r, n) = (m.rows, m.cols);
    let hb = m.to_bits();
    let rank = hb.rank();
    // one case in three reaches the conversion along another construction path of the matrix type
    let path = if (m.ones.len() + m.rows) % 3 == 2 { ((m.ones.len() + 3 * m.cols) % 6) as u8 } else { 0 };
    let hs = m.to_sparse_by(path);
    p.class_if(path != 0, "built-by-bulk-insertion-or-parsing");
    // history: in two thirds of the cases the conversion is first called, on the same thread, on
    // another matrix of the same dimensions (the zero matrix, which is rejected, or [0 | I], which
    // is accepted); the function is stateless, so this must not influence the call under test
    match m.ones.len() % 3 {
        1 => {
            // rejected matrix of the same dimensions with content: all rows equal to the case's first
            // non-empty row (rank 1 < r); for a single row, the zero matrix
            let mut z = ldpc_toolbox::sparse::SparseMatrix::new(r, n);
            if r >= 2 {
                if let Some(src) = m.row_lists().iter().find(|l| !l.is_empty()) {
                    for i in 0..r {
                        for &c in src {
                            z.insert(i, c);
                        }
                    }
                }
            }
            let w = guarded(|| parity_to_systematic(&z)).map_err(|e| Fail::new("panic", format!("parity_to_systematic panicked on a {r} x {n} matrix of rank <= 1: {e}")))?;
            ensure!(matches!(w, Err(Error::NotFullRank)), "zero-matrix", "a {r} x {n} matrix with all rows equal (or zero) was not rejected as rank deficient");
            p.class("after-a-rejected-call");
        }
        2 => {
            let mut id = ldpc_toolbox::sparse::SparseMatrix::new(r, n);
            for i in 0..r {
                id.insert(i, n - r + i);
            }
            let w = guarded(|| parity_to_systematic(&id)).map_err(|e| Fail::new("panic", format!("parity_to_systematic panicked on [0 | I]: {e}")))?;
            ensure!(w.is_ok(), "identity-tail", "[0 | I_{r}] ({r} x {n}) has full rank but the conversion returned {w:?}");
            p.class("after-an-accepted-call");
        }
        _ => {}
    }
    let res = guarded(|| parity_to_systematic(&hs)).map_err(|e| Fail::new("panic", format!("parity_to_systematic panicked: {e}")))?;
    p.class_if(rank < r, "rank-deficient");
    p.class_if(r == n, "square");
    match res {
        Err(Error::NotFullRank) => {
            ensure!(rank < r, "false-not-full-rank", "NotFullRank returned for a matrix of full rank {rank} = {r}");
        }
        Err(e) => return Err(Fail::new("unexpected-error", format!("unexpected error {e:?} for a {r} x {n} matrix"))),
        Ok(hn) => {
            ensure!(rank == r, "accepted-rank-deficient", "conversion succeeded for a matrix of rank {rank} < {r}");
            ensure!(hn.num_rows() == r && hn.num_cols() == n, "dimensions", "result is {} x {}", hn.num_rows(), hn.num_cols());
            let nb = Mat { rows: r, cols: n, ones: sparse_set(&hn).into_iter().collect() };
            let nbits = nb.to_bits();
            let mut a: Vec<Vec<bool>> = (0..n).map(|c| hb.column(c)).collect();
            let mut b: Vec<Vec<bool>> = (0..n).map(|c| nbits.column(c)).collect();
            let pivots_already_last = hb.submatrix_cols(n - r, n).rank() == r;
            p.class_if(!pivots_already_last, "pivots-not-already-last");
            if !pivots_already_last {
                p.nontrivial();
            }
            a.sort();
            b.sort();
            ensure!(a == b, "not-a-permutation", "the columns of the result are not a permutation of the input's columns");
            ensure!(nbits.submatrix_cols(n - r, n).rank() == r, "tail-singular", "the last {r} columns of the result are not invertible");
            let enc = guarded(|| Encoder::from_h(&hn)).map_err(|e| Fail::new("encoder-panic", format!("Encoder::from_h panicked on the result: {e}")))?;
            ensure!(enc.is_ok(), "encoder-rejects", "Encoder::from_h rejects the converted matrix: {enc:?}");
        }
    }
    // the same matrix object, edited after it was converted once (clear_col, clear_row or set_col to
    // empty, chosen from the case) and converted again: verdict and tail against the own rank of the
    // edited matrix
    if !m.ones.is_empty() && n <= 64 {
        let mut h2 = hs;
        let pick = m.ones[(m.ones.len() * 5 + n) % m.ones.len()];
        let mut m2 = m.clone();
        let what = match (m.ones.len() + r) % 3 {
            0 => {
                h2.clear_col(pick.1);
                m2.ones.retain(|e| e.1 != pick.1);
                format!("clear_col({})", pick.1)
            }
            1 => {
                h2.clear_row(pick.0);
                m2.ones.retain(|e| e.0 != pick.0);
                format!("clear_row({})", pick.0)
            }
            _ => {
                h2.set_col(pick.1, std::iter::empty::<&usize>());
                m2.ones.retain(|e| e.1 != pick.1);
                format!("set_col({}, [])", pick.1)
            }
        };
        let rank2 = m2.to_bits().rank();
        let res2 = guarded(|| parity_to_systematic(&h2)).map_err(|e| Fail::new("panic", format!("parity_to_systematic panicked on the object after {what}: {e}")))?;
        match res2 {
            Err(Error::NotFullRank) => ensure!(rank2 < r, "after-edit", "after {what} on an object that had been converted before: NotFullRank although the edited matrix has rank {rank2} = {r}"),
            Err(e) => return Err(Fail::new("unexpected-error", format!("unexpected error {e:?} after {what}"))),
            Ok(hn2) => {
                ensure!(rank2 == r, "after-edit", "after {what} on an object that had been converted before: the conversion succeeded although the edited matrix has rank {rank2} < {r}");
                let nb = Mat { rows: r, cols: n, ones: sparse_set(&hn2).into_iter().collect() }.to_bits();
                ensure!(nb.submatrix_cols(n - r, n).rank() == r, "after-edit", "after {what} on an object that had been converted before: the last {r} columns of the result are not invertible");
                let mut a: Vec<Vec<bool>> = (0..n).map(|c| m2.to_bits().column(c)).collect();
                let mut b: Vec<Vec<bool>> = (0..n).map(|c| nb.column(c)).collect();
                a.sort();
                b.sort();
                ensure!(a == b, "after-edit", "after {what}: the columns of the result are not a permutation of the edited matrix's columns");
            }
        }
        p.class("converted-edited-converted-again");
    }
    Ok(())
}

/// large sparse matrices (more than 64 rows): a unit column per row at generated positions
/// (full rank), a few extra ones, optionally one row made equal to another (rank deficient)
fn large_strategy(_t: Tier) -> BoxedStrategy<Mat> {
    (60usize..=140, 0usize..=70)
        .prop_flat_map(|(r, k)| {
            let n = r + k;
            (
                Just((r, n)),
                Just((0..n).collect::<Vec<usize>>()).prop_shuffle(),
                proptest::collection::vec((any::<u16>(), any::<u16>()), 0..=40),
                proptest::option::weighted(0.3, (any::<u16>(), any::<u16>())),
            )
        })
        .prop_map(|((r, n), perm, extra, dup)| {
            let mut set = std::collections::BTreeSet::new();
            for i in 0..r {
                set.insert((i, perm[i]));
            }
            for (a, b) in extra {
                set.insert((idx(a, r), idx(b, n)));
            }
            if let Some((a, b)) = dup {
                let (x, y) = (idx(a, r), idx(b, r));
                if x != y {
                    let src: Vec<usize> = set.iter().filter(|e| e.0 == x).map(|e| e.1).collect();
                    set.retain(|e| e.0 != y);
                    for c in src {
                        set.insert((y, c));
                    }
                }
            }
            Mat { rows: r, cols: n, ones: set.into_iter().collect() }
        })
        .prop_flat_map(|m| shuffled(Just(m)))
        .boxed()
}

/// very wide matrices (more than 2^16 columns): 1..=4 rows, a pivot per row at a generated column
/// (many of them beyond column 65535) plus a few extra ones; optionally two equal rows
fn wide_strategy(_t: Tier) -> BoxedStrategy<Mat> {
    (1usize..=4, 65_537usize..=70_000, proptest::collection::vec(any::<u32>(), 4), proptest::collection::vec((any::<u16>(), any::<u32>()), 0..=12), prop::bool::weighted(0.25))
        .prop_map(|(r, n, piv, extra, dup)| {
            let mut set = std::collections::BTreeSet::new();
            for i in 0..r {
                // half of the pivots in the last 5000 columns, the others anywhere
                let c = if piv[i] & 1 == 1 { n - 1 - (piv[i] as usize >> 1) % 5000 } else { (piv[i] as usize >> 1) % n };
                set.insert((i, c));
            }
            for (a, b) in extra {
                set.insert((idx(a, r), b as usize % n));
            }
            if dup && r >= 2 {
                let src: Vec<usize> = set.iter().filter(|e| e.0 == 0).map(|e| e.1).collect();
                set.retain(|e| e.0 != r - 1);
                for c in src {
                    set.insert((r - 1, c));
                }
            }
            Mat { rows: r, cols: n, ones: set.into_iter().collect() }
        })
        .boxed()
}

/// fuzz-target body: a byte tape decoded into a matrix with r <= n
pub fn fuzz_bytes(data: &[u8]) -> Check {
    let (h, _) = mat_from_bytes(data, 14, true);
    let mut p = Probe::default();
    guarded_check(|| check(&h, &mut p))
}

pub fn property() -> Property {
    Property {
        id: "C09",
        subs: vec![
            Box::new(EnumSub {
                name: "regression",
                rule: "fixed list: identity 1x1 and 2x2, the 3x4 far-right-pivot example, small zero matrices",
                cases: regression,
                check,
                exhaustive: false,
            }),
            Box::new(Sub {
                name: "conversion",
                rule: "r x n binary matrices, 1 <= r <= n <= 12 (thorough 40), in two thirds of the cases after a call on another matrix of the same dimensions on the same thread (the zero matrix, rejected, or [0 | I], accepted), by class: uniform at three densities; full rank by construction (row-mixed [I|A] with permuted columns); rank deficient by construction (row = sum of two others, duplicated row, zero row); pivots at the far right behind leading zero/duplicate columns; zero and duplicate columns; (near-)identity incl. square. Oracle: own GF(2) rank decides Err(NotFullRank) vs Ok, never a panic; Ok result has the same dimensions, the same multiset of columns, an invertible last-r-column block (own rank) and is accepted by Encoder::from_h. afterwards the same object is edited once (clear_col / clear_row / set_col to empty) and converted again, judged against the own rank of the edited matrix. Non-trivial = full rank input whose last r columns are not already invertible",
                cases: |t| t.pick(1_000_000, 20_000_000),
                strategy: |t| strategy(t.pick(12, 40)),
                check,
                health: &[("rank-deficient", 0.25), ("pivots-not-already-last", 0.25), ("square", 0.05)],
            }),
            Box::new(Sub {
                name: "conversion-large",
                rule: "large sparse matrices, 60..=140 rows and up to 70 more columns: a unit column per row at shuffled positions plus up to 40 extra ones, in 30 % of the cases one row replaced by a copy of another (rank deficient), insertion order shuffled; same oracle",
                cases: |t| t.pick(3_000, 100_000),
                strategy: large_strategy,
                check,
                health: &[("rank-deficient", 0.15)],
            }),
            Box::new(Sub {
                name: "conversion-wide",
                rule: "1..=4 rows and 65 537..=70 000 columns (column indices beyond 2^16): a pivot per row at a generated column, half of them among the last 5000 columns, up to 12 extra ones, in a quarter of the cases the last row equal to the first; same oracle",
                cases: |t| t.pick(300, 10_000),
                strategy: wide_strategy,
                check,
                health: &[],
            }),
        ],
        assumptions: vec!["matrices have at least one row and no more rows than columns, as the property states".into()],
    }
}
