#!/usr/bin/env python3
"""Sensitivity campaign (DESIGN.md §6): apply each mutant to the working tree of /repo,
confirm it compiles and passes the 42 baseline tests, run the quick check(s) that
should kill it, revert with `git checkout`. Nothing is ever committed to /repo.

usage: tools/mutants.py [id-prefix ...]        results -> tools/mutants-results.json
"""
import json, os, subprocess, sys, time

ROOT = os.path.dirname(os.path.dirname(os.path.abspath(__file__)))
R = "/repo/src/"

# (id, file, old, new, [properties expected to kill it], note)
M = [
 ("C01a", "decoder/flooding.rs", "        // Decode failed\n        Err(DecoderOutput {", "        // Decode failed\n        Ok(DecoderOutput {", ["C01"], "flooding returns Ok at the limit without a syndrome test"),
 ("C01b", "decoder/flooding.rs", "            if check_llrs(&self.h, &self.output_llrs, |x| {", "            if check_llrs(&self.h, &self.input_llrs, |x| {", ["C01"], "syndrome tested on the input LLRs, word taken from the output LLRs"),
 ("C01c", "decoder/horizontal_layered.rs", "        for iteration in 1..=max_iterations {", "        for iteration in 0..max_iterations {", ["C01"], "layered iteration count off by one"),
 ("C01d", "decoder.rs", "    !(0..h.num_rows()).any(|r| h.iter_row(r).filter(|&&c| hard_decision(llrs[c])).count() % 2 == 1)", "    !(0..h.num_rows().min(6)).any(|r| h.iter_row(r).filter(|&&c| hard_decision(llrs[c])).count() % 2 == 1)", ["C01"], "syndrome test looks at the first six checks only"),
 ("C09c", "systematic.rs", "    if !(0..m).rev().any(|j| a[[n - 1, j]] != GF2::zero()) {", "    if !(0..m - 1).rev().any(|j| a[[n - 1, j]] != GF2::zero()) {", ["C09"], "rank test ignores the last column"),
 ("C16e", "mackay_neal.rs", "                        if w < self.wr { Some((r, w)) } else { None }", "                        if w <= self.wr { Some((r, w)) } else { None }", ["C16"], "uniform policy lets a row exceed wr by one"),
 ("C06c", "codes/dvbs2.rs", "            Code::R4_5short => &[\n                &[5, 896, 1565],", "            Code::R4_5short => &[\n                &[15, 896, 1565],", ["C06"], "one address moved by q within its residue class (short 4/5)"),
 ("C02a", "encoder.rs", "                for j in 1..parity.len() {", "                for j in 2..parity.len() {", ["C02"], "staircase accumulation starts at index 2"),
 ("C02b", "encoder/staircase.rs", "            if j == 0 && k != m - n {", "            if j == 0 && k < m - n {", ["C02"], "extra one in row 0 of the tail accepted when another staircase entry is missing"),
 ("C03a", "decoder/horizontal_layered.rs", "                msg.value = A::CheckMessage::default();", "                let _ = &msg;", ["C03", "C10"], "layered decoder does not reset its check messages per frame"),
 ("C03b", "decoder/horizontal_layered.rs", "        for messages in self.check_messages.per_source.iter_mut() {\n            self.arithmetic", "        for messages in self.check_messages.per_source.iter_mut().rev() {\n            self.arithmetic", ["C03"], "layered schedule processes rows in reverse order"),
 ("C03c", "decoder/flooding.rs", "            self.process_check_nodes();\n            self.process_variable_nodes();\n            if check_llrs", "            self.process_check_nodes();\n            self.process_variable_nodes();\n            if iteration % 7 == 0 {\n                self.process_check_nodes();\n            }\n            if check_llrs", ["C03"], "an extra half iteration every 7th iteration"),
 ("C04a", "decoder/arithmetic.rs", "                                (x.min(y) - (-(x - y).abs()).exp().ln_1p()\n                                    + (-(x + y)).exp().ln_1p())\n                            }\n                        });\n                    }\n                }\n                let delta = delta.expect(\"var_messages_empty\");\n\n                send(SentMessage {", "                                (x.min(y) - (-(x - y).abs()).exp().ln_1p())\n                            }\n                        });\n                    }\n                }\n                let delta = delta.expect(\"var_messages_empty\");\n\n                send(SentMessage {", ["C04"], "A-Min* float: second correction term dropped in the fold"),
 ("C04b", "decoder/arithmetic.rs", "                            * (-(t as f64 / Self::QUANTIZER_C)).exp().ln_1p())", "                            * (-(t as f64 / 4.0)).exp().ln_1p())", ["C04"], "look-up table built for 4 units per LLR"),
 ("C04c", "decoder/arithmetic.rs", "                let (argmin, msgmin) = var_messages\n                    .iter()\n                    .enumerate()\n                    .min_by_key(|(_, msg)| msg.value.abs())", "                let (argmin, msgmin) = var_messages\n                    .iter()\n                    .enumerate()\n                    .max_by_key(|(_, msg)| msg.value.abs())", ["C04"], "A-Min* 8-bit: argmax instead of argmin"),
 ("C04d", "decoder/arithmetic.rs", "impl_tanhf!(Tanhf64, f64, 18.0);", "impl_tanhf!(Tanhf64, f64, 8.0);", ["C04"], "tanh rule saturates at |x| > 16"),
 ("C04e", "decoder/arithmetic.rs", "                    let s = if x < 0.0 { sign ^ 1 } else { sign };\n                    let val = if s == 0 { y } else { -y };", "                    let s = if x < 0.0 { sign ^ 1 } else { sign };\n                    let val = if s == 0 || var_messages.len() == 9 { y } else { -y };", ["C04"], "phi rule loses the sign at degree 9"),
 ("C05a", "decoder/arithmetic.rs", "                } else if x <= -127 {\n                    -127\n                } else {\n                    x as i8", "                } else if x <= -128 {\n                    -128\n                } else {\n                    x as i8", ["C05"], "asymmetric clip to [-128, 127]"),
 ("C05b", "decoder/arithmetic.rs", "impl_minstarapproxi8!(\n    Minstarapproxi8Jones,\n    jones_clip!(),", "impl_minstarapproxi8!(\n    Minstarapproxi8Jones,\n    identity,", ["C05"], "Jones clipping missing from one name"),
 ("C05c", "decoder/arithmetic.rs", "                if x <= -116 {\n                    -116\n                } else if x >= 116 {\n                    116", "                if x <= -116 {\n                    -116\n                } else if x >= 127 {\n                    127", ["C05"], "degree-one clip only on the negative side"),
 ("C05d", "decoder/arithmetic.rs", "                    x.round() as i8\n                }\n            }\n\n            fn llr_hard_decision(&self, llr: i8) -> bool {\n                llr <= 0\n            }\n\n            fn llr_to_var_message(&self, llr: i8) -> i8 {\n                llr\n            }\n\n            fn llr_to_var_llr(&self, llr: i8) -> i16 {\n                i16::from(llr)\n            }\n\n            fn var_llr_to_llr(&self, var_llr: i16) -> i8 {\n                Self::clip(var_llr)\n            }\n\n            #[allow(clippy::redundant_closure_call)]\n            fn send_check_messages<F>(&mut self, var_messages: &[Message<i8>], mut send: F)\n            where\n                F: FnMut(SentMessage<i8>),\n            {\n                for exclude_msg", "                    x as i8\n                }\n            }\n\n            fn llr_hard_decision(&self, llr: i8) -> bool {\n                llr <= 0\n            }\n\n            fn llr_to_var_message(&self, llr: i8) -> i8 {\n                llr\n            }\n\n            fn llr_to_var_llr(&self, llr: i8) -> i16 {\n                i16::from(llr)\n            }\n\n            fn var_llr_to_llr(&self, var_llr: i16) -> i8 {\n                Self::clip(var_llr)\n            }\n\n            #[allow(clippy::redundant_closure_call)]\n            fn send_check_messages<F>(&mut self, var_messages: &[Message<i8>], mut send: F)\n            where\n                F: FnMut(SentMessage<i8>),\n            {\n                for exclude_msg", ["C05"], "quantiser truncates instead of rounding (min* 8-bit types)"),
 ("C05e", "decoder/arithmetic.rs", "                    for msg in check_messages\n                        .iter()\n                        .filter(|msg| msg.dest != exclude_msg.dest)\n                    {\n                        let x = Self::clip(vars[msg.dest] - i16::from(msg.value));", "                    for msg in check_messages\n                        .iter()\n                        .filter(|msg| msg.dest != exclude_msg.dest)\n                    {\n                        let x = (vars[msg.dest] - i16::from(msg.value)).clamp(-128, 127) as i8;", ["C05"], "layered 8-bit extrinsic clipped asymmetrically"),
 ("C06a", "codes/dvbs2.rs", "            Code::R3_4short => self.n() * 4 / 15, // LDPC r=11/15", "            Code::R3_4short => self.n() * 14 / 15, // LDPC r=11/15", ["C06"], "D1 reverted (C20 compares the CLI with the library and is rightly silent)"),
 ("C06b", "codes/dvbs2.rs", "            Code::R8_9short => 5,", "            Code::R8_9short => 10,", ["C06"], "wrong q for short 8/9"),
 ("C07a", "codes/ccsds.rs", "static THETA_K: [u8; 26] = [\n    3, 0, 1, 2,", "static THETA_K: [u8; 26] = [\n    3, 0, 1, 3,", ["C07"], "theta_4 changed"),
 ("C07b", "codes/ccsds.rs", "            h.toggle(m + i, extra_columns + 4 * m + self.pi(4, i));", "            h.insert(m + i, extra_columns + 4 * m + self.pi(4, i));", [], "sum of permutations not taken mod 2 -- equivalent on the actual tables (the permutations never coincide): must survive"),
 ("C07c", "codes/ccsds.rs", "        [0, 176],", "        [0, 177],", ["C07"], "C2 circulant offset changed"),
 ("C08a", "sparse.rs", "                v.sort_unstable();\n", "", ["C08"], "alist writer does not sort the index lists"),
 ("C08b", "sparse.rs", "                    if row > nrows {", "                    if row > nrows + 1 {", ["C08"], "row index nrows+1 not rejected"),
 ("C08c", "sparse.rs", "        writeln!(w, \"{} {}\", direction_lengths[0], direction_lengths[1])?;", "        writeln!(w, \"{} {}\", direction_lengths[0].max(1), direction_lengths[1])?;", ["C08"], "max-weight line wrong for matrices with empty columns only"),
 ("C09a", "systematic.rs", "    if !(0..m).rev().any(|j| a[[n - 1, j]] != GF2::zero()) {", "    if !(m - 1..m).any(|j| a[[n - 1, j]] != GF2::zero()) {", ["C09"], "rank test looks at the last column only"),
 ("C09b", "systematic.rs", "                assert!(k < m - n);\n", "", [], "internal assertion removed (control: behaviour unchanged, must survive)"),
 ("C10a", "decoder/flooding.rs", "        self.output_llrs.copy_from_slice(&self.input_llrs);\n", "", ["C10", "C19"], "D5 reverted"),
 ("C10b", "decoder/arithmetic.rs", "                if self.phis.len() < var_messages.len() {\n                    self.phis.resize(var_messages.len(), 0.0);\n                }\n                for (msg, phi) in var_messages.iter().zip(self.phis.iter_mut()) {", "                if self.phis.len() < var_messages.len() {\n                    self.phis.resize(var_messages.len(), 0.0);\n                }\n                let keep = self.phis.len() > 2 * var_messages.len();\n                for (msg, phi) in var_messages.iter().zip(self.phis.iter_mut()).skip(usize::from(keep)) {", ["C10"], "phi scratch buffer state leaks when a much larger check was processed before"),
 ("C11a", "sparse/bfs.rs", "                    if branches.get(&key) != next_head.branch.as_ref() {\n                        let total = dist + next_head.path_length;\n                        return if total <= max { Some(total) } else { None };", "                    if branches.get(&key) != next_head.branch.as_ref() {\n                        let total = dist + next_head.path_length;\n                        return if total < max { Some(total) } else { None };", ["C11"], "bounded local girth cuts at < bound"),
 ("C11b", "sparse.rs", "        bfs::BFSContext::new(self, node).local_girth(max)", "        bfs::BFSContext::new(self, node).first_closed_path(max)", ["C11"], "D6 reverted"),
 ("C12a", "simulation/ber.rs", "        let llrs_decoder = match self.interleaver.as_ref() {\n            Some(i) => i.deinterleave(&llrs_demod),\n            None => llrs_demod,\n        };\n        let llrs_decoder = match self.puncturer.as_ref() {\n            Some(p) => p.depuncture(&llrs_decoder)?,\n            None => llrs_decoder,\n        };", "        let llrs_decoder = match self.puncturer.as_ref() {\n            Some(p) => p.depuncture(&llrs_demod)?,\n            None => llrs_demod,\n        };\n        let llrs_decoder = match self.interleaver.as_ref() {\n            Some(i) if llrs_decoder.len() % i.columns_for_verif() == 0 => i.deinterleave(&llrs_decoder),\n            _ => llrs_decoder,\n        };", [], "skipped: needs an accessor"),
 ("C12b", "simulation/ber.rs", "        let rate = k as f64 / n as f64;", "        let rate = k as f64 / n_cw as f64;", ["C12"], "rate counted before puncturing"),
 ("C12c", "simulation/ber.rs", "            let esn0 = self.rate * Mod::BITS_PER_SYMBOL * ebn0;", "            let esn0 = self.rate * ebn0;", ["C12"], "bits per symbol missing from Es/N0"),
 ("C12d", "simulation/ber.rs", "        let interleaver = interleaving_columns.map(|n| Interleaver::new(n.unsigned_abs(), n < 0));", "        let interleaver = interleaving_columns.map(|n| Interleaver::new(n.unsigned_abs(), n > 0));", [], "backward flag inverted consistently on both sides: interleaving and its inverse still cancel, not observable at the decoder (control: C12 must stay silent; the direction itself is C15's)"),
 ("C13a", "simulation/ber.rs", "            while current_statistics.errors_for_termination() < self.max_frame_errors {", "            while current_statistics.errors_for_termination() <= self.max_frame_errors {", ["C13"], "stops one frame error too late"),
 ("C13b", "simulation/ber.rs", "                        if !result.frame_error {\n                            current_statistics.ldpc.correct_iterations += result.iterations;", "                        if result.frame_error {\n                            current_statistics.ldpc.correct_iterations += result.iterations;", ["C13"], "correct-frame iterations summed over error frames"),
 ("C13c", "simulation/ber.rs", "                            if result.bit_errors > self.bch_max_errors {", "                            if result.bit_errors >= self.bch_max_errors {", ["C13"], "outer-code threshold off by one"),
 ("C13d", "simulation/ber.rs", "            drop(results_tx);\n", "", ["C13"], "D7 (hang) reverted"),
 ("C13e", "simulation/ber.rs", "        let bit_errors = message\n            .iter()\n            .zip(decoded.iter())", "        let bit_errors = message\n            .iter()\n            .chain(std::iter::repeat(&0u8).take(usize::from(success)))\n            .zip(decoded.iter())", ["C13"], "first parity bit counted as a bit error on successful decodes"),
 ("C14a", "simulation/modulation.rs", "        let d100 = dot(symbol, Complex::new(0.0, 1.0));\n        let d110 = dot(symbol, Complex::new(-a, a));", "        let d110 = dot(symbol, Complex::new(0.0, 1.0));\n        let d100 = dot(symbol, Complex::new(-a, a));", ["C14"], "two constellation points swapped in the demodulator"),
 ("C14b", "simulation/modulation.rs", "            scale: 1.0 / (noise_sigma * noise_sigma),", "            scale: 0.5 / (noise_sigma * noise_sigma),", ["C14", "C12"], "8PSK LLR scale halved"),
 ("C14c", "simulation/modulation.rs", "        let b2 = [d000, d010, d100, d110]", "        let b2 = [d000, d010, d100, d111]", ["C14"], "bit partition of b2 wrong"),
 ("C15a", "simulation/puncturing.rs", "        self.pattern.len() as f64 / self.num_trues as f64", "        self.num_trues as f64 / self.pattern.len() as f64", ["C15", "C12"], "rate inverted"),
 ("C15b", "simulation/puncturing.rs", "        if codeword_len % pattern_len != 0 {", "        if codeword_len < pattern_len {", ["C15"], "indivisible lengths truncated instead of rejected"),
 ("C15c", "simulation/interleaving.rs", "        if self.read_rows_backwards {\n            transpose.invert_axis(Axis(1));\n        }", "        if self.read_rows_backwards && self.columns != 7 {\n            transpose.invert_axis(Axis(1));\n        }", ["C15"], "backward reading ignored for 7 columns"),
 ("C16a", "mackay_neal.rs", "                let avail_rows = (0..self.h.num_rows()).filter(|&r| h.row_weight(r) < wr);", "                let avail_rows = (0..self.h.num_rows()).filter(|&r| h.row_weight(r) <= wr);", ["C16"], "row weight may exceed wr by one (random policy)"),
 ("C16b", "mackay_neal.rs", "                .girth_at_node_with_max(Node::Col(self.current_col), g - 1)", "                .girth_at_node_with_max(Node::Col(self.current_col), g - 3)", ["C16"], "girth constraint two too lax"),
 ("C16c", "peg.rs", "                |(_, x, w), (_, y, v)| match compare_some(x, y).reverse() {\n                    Ordering::Equal => w.cmp(v),\n                    c => c,\n                },", "                |(_, x, w), (_, y, v)| match w.cmp(v) {\n                    Ordering::Equal => compare_some(x, y).reverse(),\n                    c => c,\n                },", ["C16"], "PEG prefers low weight over distance"),
 ("C16d", "mackay_neal.rs", "            .filter_map(|s| self.run(s).ok().map(|x| (s, x)))", "            .filter_map(|s| self.run(s).ok().map(|x| (s + u64::from(s % 5 == 4), x)))", ["C16"], "search reports the wrong seed for some seeds"),
 ("C17a", "sparse.rs", "        self.rows[row].retain(|&c| c != col);\n        self.cols[col].retain(|&r| r != row);", "        self.rows[row].retain(|&c| c != col);\n        if self.cols[col].len() != 3 {\n            self.cols[col].retain(|&r| r != row);\n        }", ["C17"], "remove leaves the column view stale for columns of weight 3"),
 ("C17b", "sparse.rs", "        for &row in &self.cols[col] {\n            self.rows[row].retain(|c| *c != col);\n        }", "        for &row in self.cols[col].iter().skip(2) {\n            self.rows[row].retain(|c| *c != col);\n        }", ["C17"], "clear_col leaves the first two row entries"),
 ("C18a", "decoder/factory.rs", "    DecoderImplementation::HLPhif32, Phif32, horizontal_layered, \"HLPhif32\";", "    DecoderImplementation::HLPhif32, Phif64, horizontal_layered, \"HLPhif32\";", ["C18"], "factory row builds the f64 arithmetic"),
 ("C18b", "decoder/factory.rs", "    DecoderImplementation::HLAminstari8, Aminstari8, horizontal_layered, \"HLAminstari8\";", "    DecoderImplementation::HLAminstari8, Aminstari8, flooding, \"HLAminstari8\";", ["C18"], "factory row builds the flooding schedule"),
 ("C18c", "decoder/factory.rs", "    DecoderImplementation::Aminstari8JonesDeg1Clip, Aminstari8JonesDeg1Clip, flooding, \"Aminstari8JonesDeg1Clip\";", "    DecoderImplementation::Aminstari8JonesDeg1Clip, Aminstari8JonesDeg1Clip, flooding, \"Aminstari8JonesDeg1clip\";", ["C18"], "one display/parse string changed"),
 ("C19a", "c_api/decoder.rs", "        output.copy_from_slice(&decoded.codeword[..output.len()]);", "        output.copy_from_slice(&decoded.codeword[decoded.codeword.len() - output.len()..]);", ["C19"], "last instead of first bits copied"),
 ("C19b", "c_api/decoder.rs", "        let llrs_f64 = llrs.iter().copied().map(f64::from).collect::<Vec<f64>>();", "        let llrs_f64 = llrs.iter().copied().map(|x| f64::from(x) * 1.0000001).collect::<Vec<f64>>();", ["C19"], "f32 input not exactly widened"),
 ("C19c", "c_api/encoder.rs", "                .map(|&b| if b == 1 { GF2::one() } else { GF2::zero() }),\n        ));\n        let encoded = if let Some(p) = &self.puncturer {", "                .map(|&b| if b != 0 { GF2::one() } else { GF2::zero() }),\n        ));\n        let encoded = if let Some(p) = &self.puncturer {", [], "equivalent for 0/1 inputs (control: must survive)"),
 ("C19d", "c_api/decoder.rs", "        if success {\n            i32::try_from(decoded.iterations).unwrap()", "        if success && decoded.iterations != 3 {\n            i32::try_from(decoded.iterations).unwrap()", ["C19"], "-1 returned for successes after exactly 3 iterations"),
 ("C20a", "cli/dvbs2.rs", "            (\"3/5\", true) => Ok(Code::R3_5short),", "            (\"3/5\", true) => Ok(Code::R2_5short),", ["C20"], "one (rate, short) row mapped to a neighbour"),
 ("C20b", "cli/systematic.rs", "        println!(\"{}\", h_sys.alist());", "        println!(\"{}\", if h.num_rows() == 5 { h.alist() } else { h_sys.alist() });", ["C20"], "systematic prints the input for 5-row matrices"),
 ("C20c", "cli/encode.rs", "                Err(e) if e.kind() == ErrorKind::UnexpectedEof => break,", "                Err(e) if e.kind() == ErrorKind::UnexpectedEof => {\n                    if information_word.len() > 3 && information_word[0] == 1 {\n                        output.write_all(&[0])?;\n                    }\n                    break;\n                }", ["C20"], "a stray byte is appended after the last word in some cases"),
 ("C20d", "cli/ber.rs", "            if let Some(s) = &last_stats {\n                if s.ebn0_db != stats.ebn0_db {\n                    if let Some(f) = &mut self.output_file {\n                        writeln!(f, \"{}\", &Self::format_progress(s, false))?;", "            if let Some(s) = &last_stats {\n                if s.ebn0_db != stats.ebn0_db {\n                    if let Some(f) = &mut self.output_file {\n                        writeln!(f, \"{}\", &Self::format_progress(s, false))?;\n                        if s.num_frames % 2 == 0 {\n                            writeln!(f, \"{}\", &Self::format_progress(s, false))?;\n                        }", ["C20"], "a point's line written twice when its frame count is even"),
]

def sh(cmd, cwd=None, timeout=3600):
    p = subprocess.run(cmd, shell=True, cwd=cwd, capture_output=True, text=True, timeout=timeout)
    return p.returncode, p.stdout + p.stderr

def main():
    sel = sys.argv[1:]
    out_path = ROOT + "/tools/mutants-results.json"
    results = json.load(open(out_path)) if os.path.exists(out_path) else {}
    rc, o = sh("git -C /repo status --porcelain")
    if o.strip():
        print("refusing: /repo working tree is not clean"); sys.exit(2)
    for (mid, f, old, new, props, note) in M:
        if sel and not any(mid.startswith(s) for s in sel):
            continue
        if not props and "skipped" in note:
            continue
        path = R + f
        src = open(path).read()
        if src.count(old) != 1:
            print(f"{mid}: pattern occurs {src.count(old)} times in {f} -- skipped"); results[mid] = {"status": "pattern-mismatch"}; continue
        open(path, "w").write(src.replace(old, new))
        t0 = time.time()
        try:
            rc, o = sh("cargo test --offline 2>&1 | tail -30", cwd="/repo")
            baseline_ok = ("test result: ok. 42 passed" in o) and ("FAILED" not in o) and ("error" not in o.split("test result")[0][-2000:] if "test result" in o else False)
            entry = {"note": note, "baseline_passes": bool(baseline_ok), "checks": {}}
            if not baseline_ok:
                entry["baseline_tail"] = o[-600:]
            if baseline_ok:
                for pid in props:
                    rc, o2 = sh(f"./check {pid} quick", cwd=ROOT)
                    line = next((l for l in o2.splitlines() if l.startswith("vcheck:") and "[" in l and "]:" in l), "")
                    entry["checks"][pid] = {"exit": rc, "first": line[:300]}
                if not props:
                    # control mutant: run the nearest check, must stay silent
                    pid = mid[:3]
                    rc, o2 = sh(f"./check {pid} quick", cwd=ROOT)
                    entry["checks"][pid] = {"exit": rc, "control": True}
            entry["wall_s"] = round(time.time() - t0, 1)
            results[mid] = entry
            print(mid, json.dumps(entry)[:400], flush=True)
        finally:
            sh("git -C /repo checkout -- .")
        json.dump(results, open(out_path, "w"), indent=1)
    # summary
    for mid, e in results.items():
        if "checks" in e:
            print(mid, "baseline" if e.get("baseline_passes") else "BASELINE-FAILS", {k: v["exit"] for k, v in e["checks"].items()})

if __name__ == "__main__":
    main()
