#!/usr/bin/env bash
# tools/run_all.sh quick|thorough [ids...]   run checks one after the other, print a summary table
tier="${1:-quick}"; shift
DIR="$(cd "$(dirname "${BASH_SOURCE[0]}")/.." && pwd)"
ids=("$@"); [ ${#ids[@]} -eq 0 ] && ids=($(seq -f "C%02g" 1 20))
for id in "${ids[@]}"; do
    s=$(date +%s)
    out=$("$DIR/check" "$id" "$tier" 2>&1); rc=$?
    e=$(date +%s)
    echo "== $id $tier rc=$rc $((e - s))s"
    echo "$out" | grep -E "^(vcheck|VIOLATION|KNOWN-FINDING|check:|fuzz.sh)" | cut -c1-300
done
