#!/usr/bin/env bash
# tools/eval_seeded.sh <seed-dir> <name> <Cxx> [<Cyy> ...]
#   <seed-dir>  directory holding patch.diff, seeded_demo.rs, NOTES.md (from a sub-agent)
#   <name>      name under /verif/seeded/ to keep it as (e.g. C17-remove-fast-path)
#   <Cxx> ...   checks to run against the patched tree (first one = the property it breaks)
# Confirms in a fresh scratch worktree of /repo that the change (a) applies, (b) passes the
# baseline suite, (c) makes the demo fail while the demo passes without it; then runs the
# quick checks against the patched worktree (VERIF_REPO, never touching /repo) and records
# everything in /verif/seeded/<name>/meta.json. The worktree is removed afterwards.
set -u
SD="$1"; NAME="$2"; shift 2
DIR="$(cd "$(dirname "${BASH_SOURCE[0]}")/.." && pwd)"
WT="/tmp/verify-$NAME"
SLOT="${EVAL_SLOT:-}"   # parallel evaluations use separate build directories
export CARGO_NET_OFFLINE=true
export CARGO_TARGET_DIR=/tmp/verify-target$SLOT
git -C /repo worktree remove --force "$WT" >/dev/null 2>&1
git -C /repo worktree add --detach "$WT" HEAD >/dev/null 2>&1 || { echo "cannot create worktree"; exit 2; }
cd "$WT" || exit 2
applies=false; base=false; demo_fails=false; demo_passes=false
if git apply --check "$SD/patch.diff" 2>/dev/null; then applies=true; git apply "$SD/patch.diff"; fi
mkdir -p tests
if $applies; then
    out=$(cargo test --offline --lib 2>&1 | tail -5)
    # the 42 existing tests pass (a change may bring further tests of its own)
    echo "$out" | grep -Eq "test result: ok\. (4[2-9]|[5-9][0-9]) passed; 0 failed" && base=true
    out2=$(cargo test --offline --doc 2>&1 | tail -5)
    echo "$out2" | grep -q "test result: ok. 9 passed" || base=false
    cp "$SD/seeded_demo.rs" tests/seeded_demo.rs
    cargo test --offline --test seeded_demo >/tmp/verify-$NAME.with.log 2>&1 || demo_fails=true
    git apply -R "$SD/patch.diff"
    cargo test --offline --test seeded_demo >/tmp/verify-$NAME.without.log 2>&1 && demo_passes=true
    git apply "$SD/patch.diff"
    rm -f tests/seeded_demo.rs
fi
echo "applies=$applies baseline_passes=$base demo_fails_with=$demo_fails demo_passes_without=$demo_passes"
results="{}"
if $applies && $base; then
    for c in "$@"; do
        out=$(VERIF_REPO="$WT" VERIF_TARGET_DIR="$DIR/target/alt$SLOT" "$DIR/check" "$c" quick 2>&1)
        rc=$?
        first=$(echo "$out" | grep -m1 -E '^vcheck: .*\[[a-z0-9:._-]+\]' | cut -c1-400)
        echo "  $c -> exit $rc  $first"
        results=$(echo "$results" | jq --arg c "$c" --argjson rc $rc --arg first "$first" '. + {($c): {exit: $rc, first_message: $first}}')
    done
fi
mkdir -p "$DIR/seeded/$NAME"
cp "$SD/patch.diff" "$DIR/seeded/$NAME/patch.diff"
cp "$SD/seeded_demo.rs" "$DIR/seeded/$NAME/seeded_demo.rs"
[ -f "$SD/NOTES.md" ] && cp "$SD/NOTES.md" "$DIR/seeded/$NAME/NOTES.md"
jq -n --arg name "$NAME" --arg breaks "$1" --argjson applies $applies --argjson base $base --argjson df $demo_fails --argjson dp $demo_passes --argjson results "$results" \
   '{name: $name, breaks_property: $breaks, source: "independent sub-agent given only the property text and a scratch worktree", confirmed: {patch_applies_to_clean_checkout: $applies, baseline_42_tests_and_9_doctests_pass_with_change: $base, demo_fails_with_change: $df, demo_passes_without_change: $dp}, ran: "tools/eval_seeded.sh: fresh worktree of /repo HEAD, git apply, cargo test --offline --lib/--doc, cargo test --test seeded_demo with and without the change, then ./check <id> quick with VERIF_REPO=<worktree>", quick_checks: $results}' >"$DIR/seeded/$NAME/meta.json"
cd /
git -C /repo worktree remove --force "$WT" >/dev/null 2>&1
exit 0
