#!/usr/bin/env python3
"""tools/envscan.py <repo> <property id>

Prints NAME=VALUE lines (at most 8): environment variables that the source files anchoring the
property read (std::env::var / var_os, directly or through a string constant), each with a few
candidate values: "0", "1" and lower-case words that appear as string literals in the same file
(the spellings such a switch is compared with). On the unchanged tree the library reads no
environment variable and nothing is printed."""
import json, os, re, sys

repo, prop = sys.argv[1], sys.argv[2]
here = os.path.dirname(os.path.dirname(os.path.abspath(__file__)))
files = []
for line in open(os.path.join(here, "properties.jsonl")):
    p = json.loads(line)
    if p["id"] == prop and isinstance(p.get("anchors"), dict):
        files = [f for f in p["anchors"].get("files", []) if f.endswith(".rs")]
out = []
for rel in files:
    path = os.path.join(repo, rel)
    if not os.path.exists(path):
        continue
    text = open(path, errors="replace").read()
    if "env::var" not in text and "env::var_os" not in text:
        continue
    names = set(re.findall(r'env::var(?:_os)?\(\s*"([A-Za-z_][A-Za-z0-9_]*)"', text))
    # constants holding a variable name: upper-case string literals with an underscore
    for m in re.finditer(r'"([A-Z][A-Z0-9]*_[A-Z0-9_]+)"', text):
        names.add(m.group(1))
    words = []
    for w in re.findall(r'"([a-z][a-z0-9_-]{2,15})"', text):
        if w not in words:
            words.append(w)
    for n in sorted(names):
        for v in ["0", "1"] + words[:4]:
            out.append(f"{n}={v}")
for line in out[:8]:
    print(line)
