#!/usr/bin/env python3
"""One-off extraction of the pinned reference tables from the repository source
(run at pin time; the .tbl files under /verif/golden are committed and the
checks never re-run this).

DVB-S2: address tables of Annex B/C as listed in src/codes/dvbs2.rs.
CCSDS:  theta_k, phi_k(j, M) and the C2 circulant table of src/codes/ccsds.rs.
"""
import re, sys, os

root = os.path.dirname(os.path.dirname(os.path.abspath(__file__)))
src = open("/repo/src/codes/dvbs2.rs").read()
start = src.index("const fn addresses(self)")
end = src.index("#[cfg(test)]", start)
body = src[start:end]
arms = list(re.finditer(r"Code::(\w+) => &\[", body))
for i, m in enumerate(arms):
    seg = body[m.end(): arms[i + 1].start() if i + 1 < len(arms) else len(body)]
    rows = re.findall(r"&\[([^\]]*)\]", seg)
    out = []
    for r in rows:
        nums = [int(x) for x in re.findall(r"\d+", r)]
        out.append(" ".join(map(str, nums)))
    with open(f"{root}/golden/dvbs2/{m.group(1)}.tbl", "w") as f:
        f.write("\n".join(out) + "\n")
    print(m.group(1), len(out), "groups")

c = open("/repo/src/codes/ccsds.rs").read()
theta = re.search(r"static THETA_K: \[u8; 26\] = \[(.*?)\];", c, re.S).group(1)
theta = [int(x) for x in re.findall(r"\d+", theta)]
assert len(theta) == 26
open(f"{root}/golden/ccsds/theta.tbl", "w").write(" ".join(map(str, theta)) + "\n")
phi = re.search(r"static PHI_K: .*? = \[(.*?)\n\];", c, re.S).group(1)
rows = re.findall(r"\[(\d+(?:,\s*\d+){6})\]", phi)
assert len(rows) == 4 * 26, len(rows)
with open(f"{root}/golden/ccsds/phi.tbl", "w") as f:
    f.write("# 4 blocks (j = 0..3) of 26 rows (k = 1..26); columns M = 128, 256, 512, 1024, 2048, 4096, 8192\n")
    for r in rows:
        f.write(" ".join(re.findall(r"\d+", r)) + "\n")
c2 = re.search(r"static C2_CIRCULANTS: .*? = \[(.*?)\n\];", c, re.S).group(1)
pairs = re.findall(r"\[(\d+),\s*(\d+)\]", c2)
assert len(pairs) == 32
with open(f"{root}/golden/ccsds/c2.tbl", "w") as f:
    f.write("# 2 block rows x 16 block columns; each line: the two first-row offsets of the 511x511 circulant\n")
    for a, b in pairs:
        f.write(f"{a} {b}\n")
print("ccsds tables written")
